"""Pristine-process baselines (DESIGN.md sections 3.4, 6 C15).

A run that needs baselines forks a *helper* before it touches the library.
The helper never runs library code itself; for every request it forks a
grandchild that starts from the state "interpreter has just imported the
package", executes the requested op list there and sends back the per-slot
action streams.
"""

import json
import os
import struct

from .driver import ListDriver, run


def _write_all(fd, data):
    view = memoryview(data)
    while view:
        n = os.write(fd, view)
        view = view[n:]


def _read_exact(fd, n):
    buf = bytearray()
    while len(buf) < n:
        chunk = os.read(fd, n - len(buf))
        if not chunk:
            raise EOFError
        buf += chunk
    return bytes(buf)


def _send(fd, obj):
    data = json.dumps(obj).encode()
    _write_all(fd, struct.pack("<Q", len(data)) + data)


def _recv(fd):
    n = struct.unpack("<Q", _read_exact(fd, 8))[0]
    return json.loads(_read_exact(fd, n))


def streams_of(ops, world_kw=None):
    """Execute ops in *this* process; per-slot streams and outcomes."""
    w = run(ListDriver(ops), **(world_kw or {"monitor_counters": False}))
    out = {"__calls__": [o for _, o in w.calls]}
    for s in w.all_slots():
        out[str(s.sid)] = {"stream": [list(t) for t in s.stream],
                           "how": s.how, "stops": s.stops,
                           "exc": s.construct_exc or
                           (s.raise_exc[0] if s.raise_exc else None)}
    return out


class Helper:
    def __init__(self):
        self.pid = None
        self.req = self.res = None
        self.forks = 0

    def start(self):
        r1, w1 = os.pipe()      # requests
        r2, w2 = os.pipe()      # results
        pid = os.fork()
        if pid == 0:
            try:
                os.close(w1)
                os.close(r2)
                while True:
                    try:
                        msg = _recv(r1)
                    except EOFError:
                        break
                    gpid = os.fork()
                    if gpid == 0:
                        try:
                            try:
                                val = {"ok": streams_of(msg["ops"],
                                                        msg.get("kw"))}
                            except BaseException as e:      # noqa: BLE001
                                val = {"err": repr(e)}
                            _send(w2, val)
                        finally:
                            os._exit(0)
                    os.waitpid(gpid, 0)
            finally:
                os._exit(0)
        os.close(r1)
        os.close(w2)
        self.pid, self.req, self.res = pid, w1, r2

    def ask(self, ops, kw=None):
        self.forks += 1
        _send(self.req, {"ops": ops, "kw": kw})
        val = _recv(self.res)
        if "err" in val:
            raise RuntimeError("HARNESS: pristine helper: " + val["err"])
        return val["ok"]

    def stop(self):
        if self.pid is None:
            return
        try:
            os.close(self.req)
            os.close(self.res)
        except OSError:
            pass
        try:
            os.waitpid(self.pid, 0)
        except ChildProcessError:
            pass
        self.pid = None
