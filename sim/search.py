"""Oracle self-test by exact search (DESIGN.md section 5.6).

Dijkstra over *all executor strategies* on an abstract checkpointing machine,
for small sizes.  It validates the reference models of sim/oracles.py (it is
exhaustive search of a reference model, not a check of the library and not
the deciding step of any property).

Abstract machine.  State (f, a, R, D, w, used):
  f     forward position (None after loading a dependency checkpoint)
  a     adjoint position (n .. 0)
  R, D  sorted tuples of checkpoints held in RAM / on DISK; an entry is
        ('i', p) restart data of step p or ('d', p) dependencies of step p
  w     WORK holds the adjoint dependencies of step a-1
Moves: advance one step (cost uf) with or without taping (taping only the
step a-1), store the current forward state as a restart checkpoint (RAM:
free, DISK: wd), [mixed] store the dependencies of the step being advanced
in a unit, load a checkpoint (RAM: free, DISK: rd), delete a checkpoint
(free), reverse one step (cost ub, needs w).
"""

import heapq
from fractions import Fraction

from . import oracles as O


def search(n, ram, disk, uf=1, ub=0, wd=0, rd=0, mixed=False,
           read_once=False, disk_unbounded=False, limit=4000000):
    """Minimal cost to reverse n steps.  Costs are ints."""
    start = (0, n, (), (), False)
    dist = {start: 0}
    pq = [(0, 0, start)]
    tie = 0
    while pq:
        c, _, st = heapq.heappop(pq)
        if dist.get(st, 1 << 60) < c:
            continue
        f, a, R, D, w = st
        if a == 0:
            return c
        if len(dist) > limit:
            raise RuntimeError("search limit")
        nxt = []
        # reverse
        if w:
            na = a - 1
            nR = tuple(x for x in R if x[1] < na)
            nD = tuple(x for x in D if x[1] < na)
            nf = f if (f is not None and f <= na) else None
            nxt.append((c + ub, (nf, na, nR, nD, False)))
        if f is not None and f < a and not w:
            # advance without taping
            if f + 1 < a:
                nxt.append((c + uf, (f + 1, a, R, D, False)))
            # advance with taping (only the step right before the adjoint)
            if f == a - 1:
                nxt.append((c + uf, (f + 1, a, R, D, True)))
            # mixed: advance and keep the dependencies of this step in a unit
            if mixed and f + 1 <= a:
                if len(R) < ram and ('d', f) not in R:
                    nR = tuple(sorted(R + (('d', f),)))
                    nf = f + 1 if f + 1 < a else f + 1
                    nxt.append((c + uf, (nf, a, nR, D, False)))
        if f is not None and f < a:
            # store restart checkpoints
            if len(R) < ram and ('i', f) not in R:
                nxt.append((c, (f, a, tuple(sorted(R + (('i', f),))), D, w)))
            if (disk_unbounded or len(D) < disk) and ('i', f) not in D:
                nxt.append((c + wd, (f, a, R, tuple(sorted(D + (('i', f),))),
                                     w)))
        # loads
        if not w:
            for x in R:
                if x[0] == 'i':
                    nxt.append((c, (x[1], a, R, D, False)))
                elif x[1] == a - 1:
                    nR = tuple(y for y in R if y != x)
                    nxt.append((c, (None, a, nR, D, True)))
            for x in D:
                nD = tuple(y for y in D if y != x) if read_once else D
                nxt.append((c + rd, (x[1], a, R, nD, False)))
        # deletes
        for x in R:
            nxt.append((c, (f, a, tuple(y for y in R if y != x), D, w)))
        if not read_once:
            for x in D:
                nxt.append((c, (f, a, R, tuple(y for y in D if y != x), w)))
        for nc, ns in nxt:
            if nc < dist.get(ns, 1 << 60):
                dist[ns] = nc
                tie += 1
                heapq.heappush(pq, (nc, tie, ns))
    return None


COSTS_QUICK = ((8, 8, 16, 16), (24, 8, 4, 24), (8, 24, 40, 1))
COSTS_FULL = COSTS_QUICK + ((4, 16, 0, 0), (8, 8, 1, 64), (16, 4, 24, 8),
                            (8, 8, 8, 0), (2, 8, 16, 16))


def _instances(quick):
    inst = []
    nb = 7 if quick else 9
    for n in range(1, nb + 1):
        for s in range(1, (3 if quick else 4) + 1):
            inst.append(("binomial", n, s, 0, (1, 0, 0, 0)))
            inst.append(("mixed", n, s, 0, (1, 0, 0, 0)))
    nh = 5 if quick else 7
    for costs in (COSTS_QUICK if quick else COSTS_FULL):
        for n in range(1, nh + 1):
            for c0 in (1, 2):
                for c1 in ((0, 1) if quick else (0, 1, 2)):
                    inst.append(("hierarchical", n, c0, c1, costs))
        for n in range(1, (6 if quick else 9) + 1):
            for c0 in (1, 2):
                inst.append(("disk-revolve", n, c0, 0, costs))
    return inst


def _one(inst):
    kind, n, c0, c1, costs = inst
    uf, ub, wd, rd = costs
    if kind == "binomial":
        got = search(n, c0, 0, uf=1)
        want = O.binomial_total(n, c0) if n > 1 else 1
    elif kind == "mixed":
        got = search(n, c0, 0, uf=1, mixed=True)
        want = O.mixed_total(n, c0) if n > 1 else 1
    elif kind == "hierarchical":
        got = search(n, c0, c1, uf, ub, wd, rd)
        want = O.hopt(n - 1, c0, c1, uf, ub, wd, rd) + n * uf
    else:
        got = search(n, c0, 0, uf, ub, wd, rd, read_once=True,
                     disk_unbounded=True)
        want = O.optinf(n - 1, c0, uf, ub, wd, rd) + n * uf
    return inst, got, want


def selftest(quick=True, jobs=16):
    import multiprocessing as mp
    inst = _instances(quick)
    # largest first so that the pool stays busy
    inst.sort(key=lambda x: -x[1])
    with mp.get_context("fork").Pool(jobs) as pool:
        res = pool.map(_one, inst, chunksize=1)
    bad = 0
    for i, got, want in res:
        if got != want:
            bad += 1
            if bad <= 10:
                print(f"SELFTEST-FAIL exact search {i}: {got} vs reference "
                      f"model {want}")
    kinds = {}
    for i, _, _ in res:
        kinds[i[0]] = kinds.get(i[0], 0) + 1
    print(f"search: {len(res)} instances {kinds} "
          f"{'OK' if not bad else str(bad) + ' FAILED'}")
    return bad
