"""Campaign runner: process model, budgets, watchdogs, aggregation, evidence
(DESIGN.md sections 3.4, 3.5, 3.8, 8).

Process model: the campaign parent imports the library and never runs it.
It forks J *lieutenants* (also pristine: they never run library code); each
lieutenant walks its strided share of the run indices and forks one child per
batch of runs (batch = 1 for the properties that depend on the process-global
memo tables).  Every history therefore starts from the state "interpreter has
just imported the package".
"""

import faulthandler
import hashlib
import json
import os
import pickle
import select
import signal
import struct
import sys
import time
import traceback

from . import world as W
from .driver import Driver, ListDriver, rng_for, run

JOBS = int(os.environ.get("VERIF_JOBS", "16"))


# ---------------------------------------------------------------------------
# low-level: run a function in a forked child with a wall limit
# ---------------------------------------------------------------------------

def _write_all(fd, data):
    view = memoryview(data)
    while view:
        n = os.write(fd, view)
        view = view[n:]


def fork_call(fn, arg, limit):
    """Run fn(arg) in a forked child.  Returns ("ok", value) |
    ("timeout", None) | ("crash", text)."""
    r, wfd = os.pipe()
    pid = os.fork()
    if pid == 0:
        code = 0
        try:
            os.close(r)
            faulthandler.enable()
            try:
                val = ("ok", fn(arg))
            except BaseException:                   # noqa: BLE001
                val = ("crash", traceback.format_exc())
            data = pickle.dumps(val, protocol=pickle.HIGHEST_PROTOCOL)
            _write_all(wfd, struct.pack("<Q", len(data)) + data)
        except BaseException:                       # noqa: BLE001
            code = 3
        finally:
            os._exit(code)
    os.close(wfd)
    deadline = time.monotonic() + limit
    buf = bytearray()
    need = None
    status = None
    try:
        while True:
            left = deadline - time.monotonic()
            if left <= 0:
                status = ("timeout", None)
                break
            rl, _, _ = select.select([r], [], [], min(left, 1.0))
            if not rl:
                continue
            chunk = os.read(r, 1 << 20)
            if not chunk:
                break
            buf += chunk
            if need is None and len(buf) >= 8:
                need = struct.unpack("<Q", bytes(buf[:8]))[0]
            if need is not None and len(buf) >= 8 + need:
                break
    finally:
        os.close(r)
    if status is None:
        if need is not None and len(buf) >= 8 + need:
            status = pickle.loads(bytes(buf[8:8 + need]))
        else:
            status = ("crash", "child died without a result")
    if status[0] == "timeout":
        try:
            os.kill(pid, signal.SIGKILL)
        except ProcessLookupError:
            pass
    try:
        os.waitpid(pid, 0)
    except ChildProcessError:
        pass
    return status


# ---------------------------------------------------------------------------
# one run
# ---------------------------------------------------------------------------

def execute_run(prop, seed, tier, idx, detail=False):
    """One seeded run.  Returns a result dict (small unless detail)."""
    prop.begin_run()
    try:
        rng = rng_for(seed, prop.ID, tier, idx)
        plan = prop.plan(rng, tier, idx)
        drv = plan if hasattr(plan, "next_op") else Driver(rng, plan)
        w = run(drv, detail=detail, **prop.WORLD_KW)
        return finish_run(prop, w, idx, detail)
    finally:
        prop.end_run()


def execute_ops(prop, ops, detail=False):
    """Replay: execute a recorded op list verbatim."""
    prop.begin_run()
    try:
        w = run(ListDriver(ops), detail=detail, **prop.WORLD_KW)
        return finish_run(prop, w, -1, detail)
    finally:
        prop.end_run()


def common_probes(w):
    for s in w.all_slots():
        m = s.machine
        if s.cls == "Mixed" and m.deps_ckpt_written:
            w.probe("mixed_deps_checkpoint")
        if s.cls == "HRevolve" and m.disk_writes:
            w.probe("hrevolve_used_disk_runs")
        if m.reread_disk:
            w.probe("disk_checkpoint_reread_runs")
        if s.cls == "Multistage" and m.ram_writes and m.disk_writes:
            w.probe("multistage_both_storages_runs")
        if s.cls == "TwoLevel" and s.cfg["p"]["period"] > 0 and \
                s.N % s.cfg["p"]["period"]:
            w.probe("twolevel_partial_last_block_runs")
        if m.passes >= 2:
            w.probe("second_pass_runs")


def finish_run(prop, w, idx, detail):
    prop.check(w)
    common_probes(w)
    own = [v for v in w.viol if v["prop"] == prop.ID]
    nt = prop.nontrivial(w)
    res = {
        "idx": idx,
        "fp": w.fingerprint(),
        "n_ops": w.n_ops,
        "n_actions": w.n_actions,
        "sim_time": float(w.sim_time),
        "faults": w.faults,
        "probes": w.probes,
        "nontrivial": nt,
        "viol": own,
        "foreign": len(w.viol) - len(own),
        "order": hashlib.blake2b(repr(w.slot_order).encode(),
                                 digest_size=8).hexdigest(),
    }
    res["ops"] = w.ops
    if detail:
        res["events"] = w.events
        res["sample"] = prop.sample(w)
    return res


SID_STRIDE = 100000


def remap_ops(ops, k):
    """Renumber the slot ids of one run's ops so that several runs can be
    concatenated into one history."""
    out = []
    for op in ops:
        if op[0] in ("new", "next", "drain", "over", "fin", "obs", "del",
                     "conclude") and isinstance(op[1], int):
            op = [op[0], op[1] + SID_STRIDE * k] + list(op[2:])
        out.append(op)
    return out


class LineReach:
    """Which library lines a child executed (sys.monitoring LINE events,
    each location disabled after its first hit, so the cost is negligible).
    """

    def __init__(self):
        self.hits = set()
        self.on = False

    def start(self):
        mon = getattr(sys, "monitoring", None)
        if mon is None:
            return
        libdir = os.path.join(os.path.realpath(W.REPO),
                              "checkpoint_schedules") + os.sep
        hits = self.hits
        n = len(libdir)

        def cb(code, line):
            fn = code.co_filename
            if fn.startswith(libdir):
                hits.add((fn[n:], line))
            return mon.DISABLE
        try:
            mon.use_tool_id(mon.COVERAGE_ID, "verif-reach")
            mon.register_callback(mon.COVERAGE_ID, mon.events.LINE, cb)
            mon.set_events(mon.COVERAGE_ID, mon.events.LINE)
            self.on = True
        except ValueError:
            pass

    def stop(self):
        if self.on:
            mon = sys.monitoring
            mon.set_events(mon.COVERAGE_ID, 0)
            mon.free_tool_id(mon.COVERAGE_ID)
            self.on = False


def executable_lines():
    """(relative file -> set of line numbers that carry code)."""
    root = os.path.join(os.path.realpath(W.REPO), "checkpoint_schedules")
    out = {}
    for d, dirs, files in sorted(os.walk(root)):
        dirs.sort()
        for f in sorted(files):
            if not f.endswith(".py"):
                continue
            p = os.path.join(d, f)
            try:
                with open(p) as fh:
                    code = compile(fh.read(), p, "exec")
            except SyntaxError:
                continue
            lines = set()
            stack = [code]
            while stack:
                c = stack.pop()
                for _, _, ln in c.co_lines():
                    if ln is not None:
                        lines.add(ln)
                for k in c.co_consts:
                    if hasattr(k, "co_lines"):
                        stack.append(k)
            out[os.path.relpath(p, root)] = lines
    return out


def _batch(arg):
    prop, seed, tier, idxs, want_sample = arg
    out = []
    earlier = []
    reach = LineReach()
    if idxs and (idxs[0] // max(1, len(idxs))) % 8 == 0:
        reach.start()       # every 8th batch measures line reach
    for idx in idxs:
        res = execute_run(prop, seed, tier, idx, detail=(idx in want_sample))
        ops = res["ops"]
        if res["viol"]:
            # the history of this process up to and including this run
            res["prefix"] = list(earlier)
        elif "sample" not in res:
            del res["ops"]
        earlier.append(ops)
        out.append(res)
    reach.stop()
    if reach.hits and out:
        out[-1]["reach"] = reach.hits
    return out


# ---------------------------------------------------------------------------
# lieutenants
# ---------------------------------------------------------------------------

class Agg:
    """Aggregated coverage of many runs."""

    def __init__(self):
        self.runs = 0
        self.actions = 0
        self.ops = 0
        self.sim_time = 0.0
        self.faults = {}
        self.probes = {}
        self.fps = set()
        self.nontrivial = set()
        self.orders = set()
        self.viol = []          # (idx, violation, ops)
        self.nviol = 0
        self.timeouts = []
        self.crashes = []
        self.samples = []
        self.foreign = 0
        self.max_idx = -1
        self.reach = set()

    def add(self, res):
        self.runs += 1
        self.actions += res["n_actions"]
        self.ops += res["n_ops"]
        self.sim_time += res["sim_time"]
        for k, v in res["faults"].items():
            self.faults[k] = self.faults.get(k, 0) + v
        for k, v in res["probes"].items():
            self.probes[k] = self.probes.get(k, 0) + v
        fp = int(res["fp"][:16], 16)
        self.fps.add(fp)
        if res["nontrivial"]:
            self.nontrivial.add(fp)
        self.orders.add(res["order"])
        self.foreign += res["foreign"]
        self.max_idx = max(self.max_idx, res["idx"])
        if "reach" in res:
            self.reach |= res["reach"]
        if res["viol"]:
            self.nviol += len(res["viol"])
            if len(self.viol) < 200:
                seen = set()
                for v in res["viol"]:
                    sig = (v["kind"], v["cls"], v.get("site"))
                    if sig in seen:
                        continue
                    seen.add(sig)
                    self.viol.append((res["idx"], v, res["ops"],
                                      res.get("prefix") or []))
        if "sample" in res and len(self.samples) < 4:
            self.samples.append({"idx": res["idx"], "ops": _short_ops(
                res["ops"]), "outcome": res["sample"]})

    def merge(self, o):
        self.runs += o.runs
        self.actions += o.actions
        self.ops += o.ops
        self.sim_time += o.sim_time
        for k, v in o.faults.items():
            self.faults[k] = self.faults.get(k, 0) + v
        for k, v in o.probes.items():
            self.probes[k] = self.probes.get(k, 0) + v
        self.fps |= o.fps
        self.nontrivial |= o.nontrivial
        self.orders |= o.orders
        self.viol += o.viol
        self.nviol += o.nviol
        self.timeouts += o.timeouts
        self.crashes += o.crashes
        self.samples += o.samples
        self.foreign += o.foreign
        self.max_idx = max(self.max_idx, o.max_idx)
        self.reach |= o.reach


def _short_ops(ops, limit=40):
    if len(ops) <= limit:
        return ops
    return ops[:limit // 2] + [["...", len(ops) - limit, "ops elided"]] + \
        ops[-limit // 2:]


def _lieutenant(arg):
    prop, seed, tier, j, jobs, max_runs, deadline, batch, limit = arg
    agg = Agg()
    idx = j * batch
    stride = jobs * batch
    while idx < max_runs and time.monotonic() < deadline:
        idxs = list(range(idx, min(idx + batch, max_runs)))
        want = {i for i in idxs if i < 4}
        st, val = fork_call(_batch, (prop, seed, tier, idxs, want), limit)
        if st == "ok":
            for res in val:
                agg.add(res)
        elif st == "timeout":
            agg.timeouts.append(idxs)
        else:
            agg.crashes.append((idxs, val))
        idx += stride
    return agg


def run_campaign(prop, seed, tier, budget_s, max_runs, jobs=None):
    """Run a campaign; returns (Agg, wall seconds)."""
    jobs = jobs or JOBS
    W.lib()                     # import the library in the pristine parent
    prop.prepare(tier)
    t0 = time.monotonic()
    deadline = t0 + budget_s
    batch = 1 if prop.FORK_PER_RUN else prop.BATCH
    limit = prop.RUN_LIMIT_S[tier] * batch
    kids = []
    for j in range(jobs):
        r, wfd = os.pipe()
        pid = os.fork()
        if pid == 0:
            code = 0
            try:
                os.close(r)
                try:
                    val = ("ok", _lieutenant((prop, seed, tier, j, jobs,
                                              max_runs, deadline, batch,
                                              limit)))
                except BaseException:               # noqa: BLE001
                    val = ("crash", traceback.format_exc())
                data = pickle.dumps(val, protocol=pickle.HIGHEST_PROTOCOL)
                _write_all(wfd, struct.pack("<Q", len(data)) + data)
            except BaseException:                   # noqa: BLE001
                code = 3
            finally:
                os._exit(code)
        os.close(wfd)
        kids.append((pid, r))
    total = Agg()
    hard = deadline + limit + 60
    for pid, r in kids:
        buf = bytearray()
        while True:
            left = hard - time.monotonic()
            if left <= 0:
                break
            rl, _, _ = select.select([r], [], [], min(left, 1.0))
            if not rl:
                continue
            chunk = os.read(r, 1 << 20)
            if not chunk:
                break
            buf += chunk
        os.close(r)
        if len(buf) >= 8:
            need = struct.unpack("<Q", bytes(buf[:8]))[0]
            if len(buf) >= 8 + need:
                st, val = pickle.loads(bytes(buf[8:8 + need]))
                if st == "ok":
                    total.merge(val)
                else:
                    total.crashes.append((["lieutenant"], val))
            else:
                total.crashes.append((["lieutenant"], "truncated result"))
        else:
            total.crashes.append((["lieutenant"], "no result"))
            try:
                os.kill(pid, signal.SIGKILL)
            except ProcessLookupError:
                pass
        try:
            os.waitpid(pid, 0)
        except ChildProcessError:
            pass
    return total, time.monotonic() - t0


# ---------------------------------------------------------------------------
# source hash / evidence
# ---------------------------------------------------------------------------

def source_hash():
    h = hashlib.sha256()
    root = os.path.join(W.REPO, "checkpoint_schedules")
    for d, dirs, files in sorted(os.walk(root)):
        dirs.sort()
        if "__pycache__" in d:
            continue
        for f in sorted(files):
            if f.endswith(".py"):
                p = os.path.join(d, f)
                h.update(os.path.relpath(p, root).encode())
                with open(p, "rb") as fh:
                    h.update(fh.read())
    return h.hexdigest()[:16]


COMPONENTS = {
    "real": ["every class and function under checkpoint_schedules/ "
             "(imported from the working tree)"],
    "stub": ["forward and adjoint solvers (a step is an integer)",
             "RAM, DISK and WORK storages (maps inside the reference "
             "machine)"],
    "simulated": ["executor/client (seeded driver)",
                  "cost clock (uf, ub, wd, rd per event)"],
    "absent": ["numba (tabulated planner run as plain Python)"],
}


def write_evidence(prop, tier, seed, agg, wall, extra=None, violations=0):
    edir = os.environ.get("VERIF_EVIDENCE_DIR") or os.path.join(
        os.path.dirname(os.path.dirname(os.path.abspath(__file__))),
        "evidence")
    path = os.path.join(edir, prop.ID + ".json")
    os.makedirs(os.path.dirname(path), exist_ok=True)
    samples = sorted(agg.samples, key=lambda s: s["idx"])[:3]
    if not samples:
        samples = [{"note": "no sample recorded"}]
    cov = {
        "evaluations": agg.runs,
        "distinct_nontrivial": len(agg.nontrivial),
        "rule": prop.RULE,
        "samples": samples,
        "distinct_histories": len(agg.fps),
        "distinct_interleavings": len(agg.orders),
        "sim_actions": agg.actions,
        "sim_ops": agg.ops,
        "sim_time_cost_units": round(agg.sim_time, 3),
        "runs_per_hour": int(agg.runs / wall * 3600) if wall > 0 else 0,
        "fault_counts_fired": dict(sorted(agg.faults.items())),
        "probes": dict(sorted(agg.probes.items())),
        "components": COMPONENTS,
        "source_hash": source_hash(),
        "library_path": os.path.dirname(W.lib().__file__),
        "jobs": JOBS,
        "timeouts": len(agg.timeouts),
        "violations_of_other_properties_seen_not_reported": agg.foreign,
    }
    if agg.reach:
        total = executable_lines()
        per = {}
        for f, lines in sorted(total.items()):
            hit = {ln for (ff, ln) in agg.reach if ff == f}
            # lines of def/class headers and module level run at import time
            # (before monitoring starts); only function bodies are comparable
            per[f] = {"reached": len(hit & lines), "executable": len(lines)}
        cov["line_reach"] = {
            "note": "library lines executed while runs were in progress "
                    "(sampled: every 8th batch; import-time lines are not "
                    "counted as reached)",
            "files": per,
            "reached_total": sum(v["reached"] for v in per.values()),
        }
    cov["probes_expected"] = list(prop.EXPECTED_PROBES)
    cov["probes_stuck_at_zero"] = [x for x in prop.EXPECTED_PROBES
                                   if not agg.probes.get(x)]
    if extra:
        cov.update(extra)
    ev = {
        "property_id": prop.ID,
        "tier": tier,
        "seed": seed,
        "level": prop.LEVEL,
        "coverage": cov,
        "assumptions": prop.ASSUMPTIONS,
        "wall_s": round(wall, 2),
        "violations": violations,
    }
    tmp = path + ".tmp"
    with open(tmp, "w") as fh:
        json.dump(ev, fh, indent=1, default=str)
    os.replace(tmp, path)
    return path
