"""Deterministic simulation of checkpoint_schedules (see /verif/DESIGN.md)."""
