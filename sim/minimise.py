"""ddmin on the op list + parameter descent; replay files
(DESIGN.md section 3.9).  Every trial runs in a fresh fork."""

import copy
import json
import os

from .campaign import fork_call, execute_ops, source_hash

ROOT = os.path.dirname(os.path.dirname(os.path.abspath(__file__)))
REPLAYS = os.environ.get("VERIF_REPLAY_DIR") or os.path.join(ROOT, "replays")


def sig_of(v):
    return (v["kind"], v["cls"])


def trial(prop, ops, sig, limit=60):
    """Does executing ops reproduce a violation with this signature?
    Returns the matching violation or None."""
    st, res = fork_call(lambda o: execute_ops(prop, o), ops, limit)
    if st != "ok":
        return None
    for v in res["viol"]:
        if sig_of(v) == sig:
            return v
    return None


def ddmin(prop, ops, sig, budget):
    """Classic ddmin over the op list (complements only)."""
    n = 2
    while len(ops) >= 2 and budget[0] > 0:
        chunk = max(1, len(ops) // n)
        reduced = False
        for i in range(0, len(ops), chunk):
            cand = ops[:i] + ops[i + chunk:]
            if not cand:
                continue
            budget[0] -= 1
            if trial(prop, cand, sig):
                ops = cand
                n = max(n - 1, 2)
                reduced = True
                break
            if budget[0] <= 0:
                break
        if not reduced:
            if chunk == 1:
                break
            n = min(len(ops), n * 2)
    return ops


def _smaller_values(v, lo):
    out = []
    for c in (lo, lo + 1, v // 2, v - 1):
        if lo <= c < v and c not in out:
            out.append(c)
    return out


DEFAULT_COSTS = {"uf": "1", "ub": "1", "wd": "2", "rd": "2"}


def descend(prop, ops, sig, budget):
    """Shrink the parameters inside 'new' ops while the signature persists."""
    progress = True
    while progress and budget[0] > 0:
        progress = False
        for i, op in enumerate(ops):
            if op[0] == "e3" and len(op[2]) > 2:
                # pre-emptive sub-world: try dropping one task at a time
                for j in range(len(op[2])):
                    if budget[0] <= 0:
                        break
                    c2 = copy.deepcopy(op)
                    del c2[2][j]
                    budget[0] -= 1
                    cand = ops[:i] + [c2] + ops[i + 1:]
                    if trial(prop, cand, sig):
                        ops = cand
                        progress = True
                        break
                if progress:
                    break
                continue
            if op[0] != "new":
                continue
            cands = []
            cfg = op[2]
            for c in _smaller_values(cfg["N"], 1):
                c2 = copy.deepcopy(op)
                c2[2]["N"] = c
                cands.append(c2)
            for k, lo in (("r", 0), ("d", 0), ("s", 0), ("b", 0),
                          ("period", 1)):
                if isinstance(cfg["p"].get(k), int):
                    for c in _smaller_values(cfg["p"][k], lo):
                        c2 = copy.deepcopy(op)
                        c2[2]["p"][k] = c
                        cands.append(c2)
            if any(cfg["p"].get(k, DEFAULT_COSTS[k]) != DEFAULT_COSTS[k]
                   for k in DEFAULT_COSTS) and "uf" in cfg["p"]:
                c2 = copy.deepcopy(op)
                c2[2]["p"].update(DEFAULT_COSTS)
                cands.append(c2)
                for k in DEFAULT_COSTS:
                    if cfg["p"][k] != DEFAULT_COSTS[k]:
                        c3 = copy.deepcopy(op)
                        c3[2]["p"][k] = DEFAULT_COSTS[k]
                        cands.append(c3)
            for k in ("call", "costs_int", "costs_form"):
                if cfg["p"].get(k):
                    c2 = copy.deepcopy(op)
                    del c2[2]["p"][k]
                    cands.append(c2)
            if cfg["p"].get("traj") == "revolve":
                c2 = copy.deepcopy(op)
                c2[2]["p"]["traj"] = "maximum"
                cands.append(c2)
            for c in _smaller_values(op[3], 0):
                c2 = copy.deepcopy(op)
                c2[3] = c
                cands.append(c2)
            if op[4] != "every":
                c2 = copy.deepcopy(op)
                c2[4] = "every"
                cands.append(c2)
            for c2 in cands:
                if budget[0] <= 0:
                    break
                budget[0] -= 1
                cand = ops[:i] + [c2] + ops[i + 1:]
                if trial(prop, cand, sig):
                    ops = cand
                    progress = True
                    break
            if progress:
                break
    return ops


def collapse_nexts(prop, ops, sig, budget):
    """Replace the trailing run of next ops of a slot by one drain op."""
    sids = {op[1] for op in ops if op[0] == "next"}
    for sid in sorted(sids, key=str):
        idx = [i for i, op in enumerate(ops)
               if op[0] == "next" and op[1] == sid]
        if len(idx) < 3:
            continue
        first = idx[0]
        cand = [op for i, op in enumerate(ops) if i not in set(idx[1:])]
        cand[first] = ["drain", sid]
        budget[0] -= 1
        if trial(prop, cand, sig):
            ops = cand
    return ops


def minimise(prop, ops, sig, max_trials=220):
    budget = [max_trials]
    if not trial(prop, ops, sig):
        return ops, False
    ops = collapse_nexts(prop, ops, sig, budget)
    ops = ddmin(prop, ops, sig, budget)
    ops = descend(prop, ops, sig, budget)
    ops = ddmin(prop, ops, sig, budget)
    return ops, True


def write_replay(prop, seed, tier, idx, violation, ops, original, tag=""):
    os.makedirs(REPLAYS, exist_ok=True)
    name = f"{prop.ID}-{seed}-{idx}{tag}.json"
    path = os.path.join(REPLAYS, name)
    doc = {
        "property": prop.ID,
        "seed": seed,
        "tier": tier,
        "run_index": idx,
        "signature": {"kind": violation["kind"], "cls": violation["cls"],
                      "site": violation.get("site")},
        "detail": violation["detail"],
        "violating_op_index": violation.get("op"),
        "ops": ops,
        "original_ops_len": len(original),
        "original_ops": original if len(original) <= 400 else
        original[:400] + [["...", "truncated"]],
        "source_hash": source_hash(),
    }
    with open(path, "w") as fh:
        json.dump(doc, fh, indent=1)
    return path
