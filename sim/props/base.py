"""Common machinery of the property modules: the base class, the shared
single-tenant (E1) workload and its small box."""

from ..driver import (Plan, VARIANTS, RF, draw_cfg, draw_passes)
from ..machine import passes_permitted


class Base:
    ID = None
    LEVEL = "exploration"
    TECHNIQUE = "deterministic simulation: seeded executor histories on a " \
                "reference storage machine"
    FORK_PER_RUN = False
    BATCH = 32
    RUN_LIMIT_S = {"quick": 40, "thorough": 180}
    #: (wall budget s, max runs)
    BUDGET = {"quick": (30, 400000), "thorough": (540, 40000000)}
    WORLD_KW = {}
    RULE = ""
    ASSUMPTIONS = []
    #: size bounds per tier: (nmax, rf_nmax)
    SIZES = {"quick": (64, 48), "thorough": (300, 128)}
    VARIANT_WEIGHTS = None
    #: reach probes that a healthy campaign must fire (reported in the
    #: evidence as probes_stuck_at_zero; a stuck probe means the workload or
    #: fault mix must change)
    EXPECTED_PROBES = ()

    def prepare(self, tier):
        pass

    def begin_run(self):
        pass

    def end_run(self):
        pass

    def post_campaign(self, seed, tier, agg):
        """Extra work in the campaign parent; returns (extra evidence,
        list of harness errors, list of (violation, ops))."""
        return {}, [], []

    def plan(self, rng, tier, idx):
        raise NotImplementedError

    def check(self, w):
        pass

    def nontrivial(self, w):
        return w.n_actions > 3

    def sample(self, w):
        out = []
        for s in w.all_slots():
            out.append({"cfg": s.cfg, "concluded": s.how,
                        "actions": len(s.stream),
                        "stream_head": [list(t) for t in s.stream[:12]],
                        "machine": s.machine.summary()})
        return out

    # helpers ---------------------------------------------------------------
    def own(self, w, kind, slot, detail, site=None):
        w.violation(self.ID, kind, slot, detail, site)


# ---------------------------------------------------------------------------
# small box shared by the E1 properties
# ---------------------------------------------------------------------------

BOX_COSTS = ({"uf": "1", "ub": "1", "wd": "2", "rd": "2"},
             {"uf": "2", "ub": "1/2", "wd": "1/2", "rd": "3"},
             {"uf": "1/2", "ub": "3", "wd": "5", "rd": "1/8"})

_BOX = {}


def small_box(nbox=8):
    """All configurations with N <= nbox (units <= N+1, TwoLevel period
    <= N+1, b <= 3, RF s <= 3, d <= 3, three cost vectors), with the pass
    counts worth trying."""
    if nbox in _BOX:
        return _BOX[nbox]
    box = []
    for N in range(1, nbox + 1):
        box.append(({"cls": "None", "N": N, "p": {}}, 0))
        for k in (1, 2, 3):
            box.append(({"cls": "SingleMemory", "N": N, "p": {}}, k))
            box.append(({"cls": "SingleDisk", "N": N, "p": {"move": False}},
                        k))
        box.append(({"cls": "SingleDisk", "N": N, "p": {"move": True}}, 1))
        for traj in ("maximum", "revolve"):
            for r in range(0, N + 2):
                for d in range(0, N + 2):
                    if N > 1 and r + d < 1:
                        continue
                    box.append(({"cls": "Multistage", "N": N,
                                 "p": {"r": r, "d": d, "traj": traj}}, 1))
        for st in ("RAM", "DISK"):
            for s in range(0 if N == 1 else 1, N + 2):
                box.append(({"cls": "Mixed", "N": N,
                             "p": {"s": s, "storage": st}}, 1))
        for period in range(1, N + 2):
            for b in range(0, 4):
                for st in ("RAM", "DISK"):
                    for traj in ("maximum", "revolve"):
                        for k in (1, 2):
                            box.append(({"cls": "TwoLevel", "N": N,
                                         "p": {"period": period, "b": b,
                                               "storage": st, "traj": traj}},
                                        k))
        for costs in BOX_COSTS:
            for s in (1, 2, 3):
                for c in ("Revolve", "DiskRevolve", "PeriodicDiskRevolve"):
                    box.append(({"cls": c, "N": N, "p": dict(costs, s=s)}, 1))
                for d in (0, 1, 2, 3):
                    box.append(({"cls": "HRevolve", "N": N,
                                 "p": dict(costs, s=s, d=d)}, 1))
    _BOX[nbox] = box
    return box


class E1(Base):
    """Single-tenant workload: one schedule, the documented executor, optional
    F3 (repeat finalize = style 'every'), F7 (extra passes), F5 (overrun)."""

    OVERRUN = 0
    OBS_RATE = 0.0
    MAXP = 3
    NBOX = 8
    USE_BOX = True
    #: share of Mixed runs on the tabulated planner path (F8 knob)
    TABULATED = 0.35
    #: share of online-class runs finalised late by injected finalize calls
    LATE_FIN = 0.0
    #: share of runs with injected finalize() calls that must be rejected
    BAD_FIN = 0.0
    OBS_KINDS = None
    #: share of runs that construct (and finalise) with numpy integers and/or
    #: keyword arguments
    CALL_FORMS = 0.08

    #: share of runs drawn from the large-N stratum (cheap unit counts)
    LARGE = {"quick": 0.04, "thorough": 0.08}
    LARGE_N = {"quick": (129, 420), "thorough": (129, 800)}

    def draw_large(self, rng, tier):
        """Large step counts with unit counts that keep planning cheap."""
        lo, hi = self.LARGE_N[tier]
        N = rng.randint(lo, hi)
        v = rng.choice(("Revolve", "Revolve", "DiskRevolve",
                        "PeriodicDiskRevolve", "HRevolve", "MultistageMax",
                        "MultistageRev", "MixedRAM", "MixedDISK", "TwoLevel",
                        "SingleMemory", "SingleDiskCopy", "SingleDiskMove"))
        cfg = draw_cfg(rng, v, 16)
        cfg["N"] = N
        p = cfg["p"]
        if "uf" in p:
            p["s"] = rng.choice((1, 1, 2))
            if "d" in p:
                p["d"] = rng.choice((0, 1))
            if N > 300:
                p["s"] = 1
        elif cfg["cls"] == "Mixed":
            if rng.random() < 0.3:
                # many units (beyond 255), just below the diagonal
                cfg["N"] = N = rng.randint(258, 400)
                p["s"] = N - rng.randint(1, 6)
            else:
                cfg["N"] = N = min(N, 260)
                p["s"] = rng.choice((1, 2, 3))
        elif cfg["cls"] == "Multistage":
            tot = rng.randint(1, 12)
            if rng.random() < 0.3:
                cfg["N"] = N = rng.randint(258, 420)
                tot = N - rng.randint(1, 6)
            p["r"] = rng.randint(0, tot)
            p["d"] = tot - p["r"]
        elif cfg["cls"] == "TwoLevel":
            p["period"] = rng.choice((1, 2, 7, 16, 50, N // 3, N, N + 1))
            p["b"] = rng.choice((0, 1, 2, 3, 6))
        return cfg, draw_passes(rng, cfg, 2)

    def draw_slot(self, rng, tier):
        if rng.random() < self.LARGE[tier]:
            return self.draw_large(rng, tier)
        nmax, rfmax = self.SIZES[tier]
        if self.VARIANT_WEIGHTS:
            names = list(self.VARIANT_WEIGHTS)
            variant = rng.choices(names,
                                  [self.VARIANT_WEIGHTS[n] for n in names])[0]
        else:
            variant = rng.choice(VARIANTS)
        cfg = draw_cfg(rng, variant, nmax, rfmax)
        return cfg, draw_passes(rng, cfg, self.MAXP)

    def plan(self, rng, tier, idx):
        box = small_box(self.NBOX) if self.USE_BOX else ()
        if idx < len(box):
            cfg, passes = box[idx]
            rng.random()
        else:
            cfg, passes = self.draw_slot(rng, tier)
            u = rng.random()
            if u < self.CALL_FORMS and cfg["p"]:
                # unusual but legal calling forms: numpy integers, keywords
                cfg["p"]["call"] = rng.choice(("np", "np32", "kw", "npkw",
                                               "pos", "nppos"))
            if "uf" in cfg["p"]:
                u = rng.random()
                if u < 0.25:
                    cfg["p"]["costs_int"] = True
                elif u < 0.37:
                    # numpy.float64 / fractions.Fraction costs
                    cfg["p"]["costs_form"] = "np" if u < 0.33 else "frac"
        style = "every" if rng.random() < 0.7 else "first"
        if rng.random() < 0.3:
            style += "+for"
        faults = {}
        if self.OBS_RATE and rng.random() < 0.7:
            faults = {"obs": self.OBS_RATE, "obs_before": 0.5}
        planner = "memo"
        if cfg["cls"] == "Mixed" and cfg["N"] <= 64 and \
                rng.random() < self.TABULATED:
            planner = "tabulated"
        if self.LATE_FIN and cfg["cls"] in ("None", "SingleMemory",
                                            "SingleDisk", "TwoLevel") \
                and rng.random() < self.LATE_FIN:
            style = "manual" + ("+for" if style.endswith("+for") else "")
            faults = dict(faults, fin=0.35)
        if self.BAD_FIN and not faults.get("fin") and \
                rng.random() < self.BAD_FIN:
            # finalize() calls that must be rejected and, being rejected,
            # change nothing
            faults = dict(faults, badfin=rng.choice((0.05, 0.15)))
        return Plan([(cfg, passes, style)], faults=faults,
                    overrun=self.OVERRUN, knobs=[("planner", planner)],
                    obs_kinds=self.OBS_KINDS,
                    conclude_obs=2 if faults.get("obs") else 0)

    def box_size(self):
        return len(small_box(self.NBOX)) if self.USE_BOX else 0


def complete(slot):
    """The slot ran to the end the executor asked for."""
    return slot.how in ("enough", "stop") or (
        slot.state == "live" and slot.machine.passes >= slot.passes_wanted
        and slot.passes_wanted > 0)


def aborted_check(prop, w, kind="aborted"):
    """A valid configuration whose stream raised mid-way."""
    for s in w.all_slots():
        if s.how == "raise":
            exc, msg, at = s.raise_exc
            prop.own(w, f"{kind}:{exc}", s,
                     f"next() raised {exc}({msg!r}) after {at} actions")
        # a constructor that raises emits no stream at all: C17's business
