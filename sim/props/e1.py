"""Properties decided on the single-tenant engine E1 with the reference
machine's guards: C01, C02, C03, C04, C08, C12, C18."""

import numbers
import sys

from .base import E1, aborted_check
from ..machine import norm, RAM, DISK


class C01(E1):
    ID = "C01"
    TECHNIQUE = ('deterministic simulation: seeded executor histories (passes, finalize style, driving pattern, planner knob) on a reference storage machine; per-event executability guards')
    EXPECTED_PROBES = ('second_pass_runs', 'mixed_deps_checkpoint', 'multistage_both_storages_runs', 'hrevolve_used_disk_runs', 'twolevel_partial_last_block_runs')
    RULE = ("one schedule per run (class variant, parameters, costs, true end "
            "N, passes, finalize style, driving style [next() calls or the "
            "documented for-loop-and-break per pass] and Mixed planner path "
            "drawn from the run seed; all configurations with N <= 8 walked "
            "first; 4-8 % of runs from a large-N stratum, N up to 420/800 "
            "with cheap unit counts), executed action by action on the "
            "reference machine; non-trivial = the stream restarted from at "
            "least one checkpoint (Copy/Move executed); distinct = distinct "
            "event-log fingerprints")
    ASSUMPTIONS = [
        "the reference machine (sim/machine.py) is the meaning of 'carried "
        "out literally by a solver'",
        "a restart checkpoint written by Forward(n0,n1) serves steps "
        "[n0,min(n1,N)); 'covers' = its range reaches the adjoint position",
        "sizes bounded: N <= 64 quick / 300 thorough (Revolve family 48/128)"
        " plus the large-N stratum",
    ]

    def nontrivial(self, w):
        return any(t[0] in ("Copy", "Move") for s in w.all_slots()
                   for t in s.stream)


class C02(E1):
    ID = "C02"
    TECHNIQUE = ('deterministic simulation with fault injection: seeded executor histories incl. overrun next() calls and injected finalize() calls that must be rejected; phase-grammar and coverage monitors on the reference machine; bounded-liveness step cap')
    EXPECTED_PROBES = ('second_pass_runs',)
    OVERRUN = 3
    BAD_FIN = 0.1
    RULE = ("as C01 plus next() three more times after the executor's last "
            "pass; phase grammar, contiguous tiling of [0,N) by forward-phase "
            "Forwards and by each pass's Reverses, EndReverse exactly at "
            "adj=0, nothing but StopIteration after the last permitted "
            "EndReverse, conclusion within the step cap; non-trivial = at "
            "least two Reverse actions")
    ASSUMPTIONS = C01.ASSUMPTIONS + [
        "step cap per pass 4*(units+6)*N+64 actions"]

    def check(self, w):
        aborted_check(self, w)
        for s in w.all_slots():
            m = s.machine
            if s.how == "construct_failed":
                continue
            # the executor got every pass it was entitled to
            want = s.passes_wanted
            if s.permitted is not None:
                want = min(want, s.permitted)
            if s.how in ("enough", "stop") and m.passes < want:
                self.own(w, "missing_pass", s,
                         f"{m.passes} adjoint calculations delivered, "
                         f"{want} requested and permitted")
            if s.how == "stop" and not s.final_emitted and \
                    m.phase == "REV" and m.adj not in (0, s.N):
                self.own(w, "early_stop", s,
                         f"StopIteration with the adjoint at {m.adj}")
            if s.final_emitted:
                bad = [x for x in s.post if x != "stop"]
                if bad:
                    self.own(w, "after_final", s,
                             f"after the final action next() gave {bad}")
            if m.endforwards > 1:
                self.own(w, "phase", s, "EndForward emitted more than once")

    def nontrivial(self, w):
        return sum(1 for s in w.all_slots() for t in s.stream
                   if t[0] == "Reverse") >= 2


class C03(E1):
    ID = "C03"
    TECHNIQUE = ('deterministic simulation: seeded executor histories on a reference storage machine; per-event budget monitor')
    EXPECTED_PROBES = ('hrevolve_disk_reread', 'hrevolve_used_disk')
    RULE = ("as C01 with unit counts concentrated where budgets bind; after "
            "every event the number of checkpoints held in RAM / on DISK is "
            "compared with the per-class budget table (DESIGN 6 C03); "
            "non-trivial = a positive budget was reached exactly")
    ASSUMPTIONS = C01.ASSUMPTIONS + [
        "budget table of DESIGN.md C03 (TwoLevel: one DISK checkpoint per "
        "forward-phase Forward emitted)"]
    VARIANT_WEIGHTS = {"MultistageMax": 2, "MultistageRev": 2, "MixedRAM": 1,
                       "MixedDISK": 1, "TwoLevel": 3, "Revolve": 1,
                       "DiskRevolve": 1, "PeriodicDiskRevolve": 1,
                       "HRevolve": 4, "SingleDiskCopy": 0.3,
                       "SingleDiskMove": 0.3, "SingleMemory": 0.2,
                       "None": 0.2}

    def nontrivial(self, w):
        return any(s.machine.budget_reached for s in w.all_slots())

    def check(self, w):
        for s in w.all_slots():
            if s.machine.reread_disk and s.cls == "HRevolve":
                w.probe("hrevolve_disk_reread")
            if s.cls == "HRevolve" and s.machine.disk_writes:
                w.probe("hrevolve_used_disk")


class C04(E1):
    ID = "C04"
    TECHNIQUE = ('deterministic simulation: seeded multi-pass executor histories on a reference storage machine; store snapshots at EndForward/EndReverse compared')
    EXPECTED_PROBES = ('second_pass_runs', 'hrevolve_used_disk_runs')
    RULE = ("as C01; at every EndReverse the set of stored checkpoints is "
            "compared with the empty set (single-adjoint classes) or with the "
            "set at EndForward (repeatable classes); non-trivial = the stream "
            "wrote at least one RAM/DISK checkpoint and reached EndReverse")
    ASSUMPTIONS = C01.ASSUMPTIONS

    def check(self, w):
        for s in w.all_slots():
            m = s.machine
            if not m.end_stores:
                continue
            if s.permitted == 1:
                ram, disk = m.end_stores[0]
                for st, keys in ((RAM, ram), (DISK, disk)):
                    if keys:
                        touch = m.store[st].get(keys[0], (0, 0, 0, "?"))[3]
                        self.own(
                            w, f"leftover:{st}:{touch}", s,
                            f"at the final EndReverse {st} still holds "
                            f"checkpoints {list(keys)[:6]} (last touched by "
                            f"{touch})", site=f"{st}:{touch}")
            elif s.permitted is None:
                for i, es in enumerate(m.end_stores):
                    if es != m.S_EF:
                        grew = len(es[0]) + len(es[1]) > \
                            len(m.S_EF[0]) + len(m.S_EF[1])
                        self.own(
                            w, "accumulates" if grew else "store_changed", s,
                            f"at EndReverse of pass {i + 1} storage holds "
                            f"RAM{list(es[0])[:6]} DISK{list(es[1])[:6]} but "
                            f"at EndForward it held RAM{list(m.S_EF[0])[:6]} "
                            f"DISK{list(m.S_EF[1])[:6]}")
                        break

    def nontrivial(self, w):
        return any(s.machine.end_stores and
                   (s.machine.disk_writes or s.machine.ram_writes)
                   for s in w.all_slots())


class C08(E1):
    ID = "C08"
    TECHNIQUE = ('deterministic simulation with observer and fault injection: counters read after every event and at seeded instants (also around injected finalize() calls that must be rejected), compared with the reference machine')
    EXPECTED_PROBES = ('second_pass_runs', 'obs_before_first_next')
    OBS_RATE = 0.25
    BAD_FIN = 0.1
    OBS_KINDS = ("n", "r", "max_n") * 3 + ("is_exhausted", "is_running",
                                          "uses:RAM", "uses:DISK")
    RULE = ("as C01 plus reads of n, r, max_n (and the other observers) "
            "interleaved at seeded instants; after every event (and after the "
            "executor's in-action finalize) schedule.n/r/max_n are compared "
            "with the machine's forward position, reversed-step count and "
            "true N; repeated reads with no next() between must agree; "
            "non-trivial = at least one restart from a checkpoint and one "
            "counter comparison in the reverse phase")
    ASSUMPTIONS = C01.ASSUMPTIONS + [
        "on-time finalisation only (late finalisation belongs to C10)"]

    def check(self, w):
        for s in w.all_slots():
            last = {}
            for rec in s.obs:
                nexts, what, out = rec[0], rec[1], rec[2]
                if what not in ("n", "r", "max_n"):
                    continue
                if out[0] == "raise":
                    self.own(w, what + "_wrong", s,
                             f"reading {what} raised {out[1]}")
                    continue
                key = (what, nexts)
                if key in last and last[key] != out[1]:
                    self.own(w, what + "_wrong", s,
                             f"two reads of {what} with no next() between "
                             f"gave {last[key]} and {out[1]}")
                last[key] = out[1]

    def nontrivial(self, w):
        return any(t[0] in ("Copy", "Move") for s in w.all_slots()
                   for t in s.stream)


class C12(E1):
    ID = "C12"
    TECHNIQUE = ('deterministic simulation: seeded executor histories on a reference storage machine; per-event WORK-discipline monitors')
    EXPECTED_PROBES = ('mixed_deps_checkpoint', 'hrevolve_used_disk_runs')
    RULE = ("as C01; after every event WORK is inspected: adjoint dependencies"
            " of at most one step (SingleMemory exempt), loads only into an "
            "empty WORK, dependencies written/loaded only for step adj-1, no "
            "Forward beyond the adjoint position (or beyond N once "
            "finalised); non-trivial = at least one load into WORK")
    ASSUMPTIONS = C01.ASSUMPTIONS + [
        "adjoint dependencies in WORK persist until a Reverse with "
        "clear_adj_deps=True (a literal executor does not drop them on its "
        "own)"]

    def nontrivial(self, w):
        return any(t[0] in ("Copy", "Move") for s in w.all_slots()
                   for t in s.stream)


# ---------------------------------------------------------------------------
# C18
# ---------------------------------------------------------------------------

def _is_int(x):
    return isinstance(x, numbers.Integral) and not isinstance(x, bool) \
        and type(x).__name__ != "bool_"


def _is_bool(x):
    return isinstance(x, bool) or type(x).__name__ in ("bool_", "bool")


def _numpy_args(args):
    """The same parameter tuple with numpy scalars, or None when an integer
    does not fit an int64 comfortably (mixing int64 with larger Python ints
    overflows inside numpy, which is not the library's business)."""
    import numpy
    if any(_is_int(x) and not _is_bool(x) and abs(x) >= 2 ** 61
           for x in args):
        return None
    out = [numpy.bool_(x) if _is_bool(x) else
           numpy.int64(x) if _is_int(x) else x for x in args]
    if all(x is y for x, y in zip(out, args)):
        return None
    return out


def _is_st(x):
    return type(x).__name__ == "StorageType"


def wellformed(a):
    """Predicates of the C18 statement; returns a list of (field, text)."""
    bad = []
    kind = type(a).__name__
    args = a.args
    if kind == "Forward":
        if len(args) != 5:
            return [("arity", repr(a))]
        n0, n1, wi, wa, st = args
        if not (_is_int(n0) and _is_int(n1)):
            bad.append(("n0n1_integral", repr(a)))
        elif not 0 <= n0 < n1:
            bad.append(("n0<n1", repr(a)))
        if not (_is_bool(wi) and _is_bool(wa)):
            bad.append(("flags_bool", repr(a)))
        if not _is_st(st):
            bad.append(("storage_type", repr(a)))
        else:
            if st.name in ("RAM", "DISK") and not (wi or wa):
                bad.append(("storage_nothing_written", repr(a)))
            if st.name == "NONE" and (wi or wa):
                bad.append(("none_but_written", repr(a)))
    elif kind == "Reverse":
        if len(args) != 3:
            return [("arity", repr(a))]
        n1, n0, cl = args
        if not (_is_int(n0) and _is_int(n1)):
            bad.append(("n0n1_integral", repr(a)))
        elif not n1 > n0 >= 0:
            bad.append(("reverse_range", repr(a)))
        if not _is_bool(cl):
            bad.append(("flags_bool", repr(a)))
    elif kind in ("Copy", "Move"):
        if len(args) != 3:
            return [("arity", repr(a))]
        n, src, dst = args
        if not _is_int(n) or n < 0:
            bad.append(("step_integral", repr(a)))
        if not (_is_st(src) and src.name in ("RAM", "DISK")):
            bad.append(("source", repr(a)))
        if not _is_st(dst):
            bad.append(("destination", repr(a)))
    elif kind in ("EndForward", "EndReverse"):
        if len(args) != 0:
            bad.append(("arity", repr(a)))
    else:
        bad.append(("kind", repr(a)))
    return bad


def _struct_eq(a, b):
    return norm(a) == norm(b)


def _perturb(a, lib):
    """One-field perturbations of an action and one equal copy."""
    cls = type(a)
    out = [(cls(*a.args), True)]
    # an instance of the exported base class with the same parameters is of
    # another kind
    base = cls.__mro__[1]
    if base.__name__ == "CheckpointAction":
        try:
            out.append((base(*a.args), False))
        except Exception:                               # noqa: BLE001
            pass
    # the sibling kind with the same parameter tuple is another kind
    twin = {"Copy": "Move", "Move": "Copy", "EndForward": "EndReverse",
            "EndReverse": "EndForward"}.get(cls.__name__)
    if twin is not None:
        try:
            out.append((getattr(lib, twin)(*a.args), False))
        except Exception:                               # noqa: BLE001
            pass
    # the same parameters as numpy scalars are equal parameters
    try:
        nargs = _numpy_args(a.args)
        if nargs is not None:
            out.append((cls(*nargs), True))
    except Exception:                                   # noqa: BLE001
        pass
    ST = lib.StorageType
    for i, x in enumerate(a.args):
        if _is_bool(x):
            y = not x
        elif _is_int(x):
            y = x + 1
        elif _is_st(x):
            y = ST.DISK if x is not ST.DISK else ST.RAM
        else:
            continue
        args = list(a.args)
        args[i] = y
        try:
            out.append((cls(*args), False))
        except Exception:                               # noqa: BLE001
            pass
    return out


class C18(E1):
    ID = "C18"
    TECHNIQUE = ('deterministic simulation: per-action monitors on every emitted action (incl. late-finalised histories and the tabulated planner) plus value-law checks on history pairs, perturbations and seeded constructed actions')
    EXPECTED_PROBES = ('c18_actions_examined', 'c18_constructed_actions')
    WORLD_KW = {"keep_raw": True}
    LATE_FIN = 0.3
    SIZES = {"quick": (32, 32), "thorough": (128, 96)}
    RULE = ("the C01 workload; the well-formedness predicates of the "
            "statement on every emitted action; value laws (==, repr "
            "round-trip, len/iter/in) on consecutive and strided pairs of one "
            "history, on equal copies and one-field perturbations, and "
            "against non-actions; non-trivial = at least 6 actions of at "
            "least 3 kinds examined")
    ASSUMPTIONS = [
        "actions and pairs arising in simulated runs (incl. late-finalised "
        "online histories and the tabulated Mixed planner), copies and "
        "one-field perturbations of them, and 10 directly constructed "
        "actions per run are examined",
        "repr round-trip is evaluated in a namespace holding the action "
        "classes, StorageType, sys and numpy (as np): the tabulated planner "
        "emits numpy integers whose repr names np under numpy 2",
        "iteration is enumerated in full only for spans <= 10000 steps; "
        "longer spans are probed by len and membership",
    ]
    PAIRS = 64

    def check(self, w):
        from ..world import lib
        L = lib()
        ns = {"sys": sys, "StorageType": L.StorageType}
        # reprs of numpy scalar arguments (tabulated Mixed planner) name
        # numpy as np / numpy; the property does not fix the namespace
        try:
            import numpy
            ns["np"] = ns["numpy"] = numpy
        except ImportError:
            pass
        for nm in ("Forward", "Reverse", "Copy", "Move", "EndForward",
                   "EndReverse"):
            ns[nm] = getattr(L, nm, None) or getattr(
                sys.modules["checkpoint_schedules.schedule"], nm)
        for s in w.all_slots():
            raw = s.raw
            seen = set()
            for a in raw:
                for field, text in wellformed(a):
                    if field not in seen:
                        seen.add(field)
                        self.own(w, "malformed:" + field, s, text)
            if not raw:
                continue
            n = len(raw)
            # a deterministic sample of actions and pairs
            step = max(1, n // self.PAIRS)
            idxs = list(range(0, n, step))[:self.PAIRS]
            done = set()

            def once(kind, text, done=done, s=s):
                if kind not in done:
                    done.add(kind)
                    self.own(w, kind, s, text)
                    if kind != "iteration":
                        w.viol[-1]["cls"] = "*"
            for i in idxs:
                a = raw[i]
                self._laws_single(a, ns, once)
                for b in (raw[(i + 1) % n], raw[(7 * i + 3) % n]):
                    self._law_pair(a, b, once)
                for b, equal in _perturb(a, L):
                    self._law_pair(a, b, once, expect=equal)
                w.probe("c18_actions_examined")
        # directly constructed actions (seeded by the run's own history, so
        # the choice is a pure function of the run)
        import random
        rng = random.Random(int(w.fingerprint()[:16], 16))
        ST = [L.StorageType.RAM, L.StorageType.DISK, L.StorageType.WORK,
              L.StorageType.NONE]
        ints = (0, 1, 2, 3, 7, 64, sys.maxsize - 1, sys.maxsize)
        pool = []
        for _ in range(10):
            k = rng.randrange(6)
            n0 = rng.choice(ints[:6])
            n1 = n0 + rng.choice((1, 2, 5, sys.maxsize))
            if k == 0:
                pool.append(ns["Forward"](n0, n1, rng.random() < 0.5,
                                          rng.random() < 0.5,
                                          rng.choice(ST)))
            elif k == 1:
                pool.append(ns["Reverse"](n1, n0, rng.random() < 0.5))
            elif k == 2:
                pool.append(ns["Copy"](n0, rng.choice(ST[:2]),
                                       rng.choice(ST)))
            elif k == 3:
                pool.append(ns["Move"](n0, rng.choice(ST[:2]),
                                       rng.choice(ST)))
            elif k == 4:
                pool.append(ns["EndForward"]())
            else:
                pool.append(ns["EndReverse"]())
        done = set()
        slot0 = (w.all_slots() or [None])[0]

        def once2(kind, text):
            if kind not in done:
                done.add(kind)
                self.own(w, kind, slot0, "directly constructed: " + text)
                w.viol[-1]["cls"] = "*"
        # some of them once more with numpy scalars as parameters
        for a in list(pool[:5]):
            nargs = _numpy_args(a.args)
            if nargs is not None:
                pool.append(type(a)(*nargs))
        for i, a in enumerate(pool):
            self._laws_single(a, ns, once2)
            for b in pool[i + 1:]:
                self._law_pair(a, b, once2)
            for b, equal in _perturb(a, L):
                self._law_pair(a, b, once2, expect=equal)
        w.probe("c18_constructed_actions", len(pool))

    def _law_pair(self, a, b, once, expect=None):
        want = _struct_eq(a, b) if expect is None else expect
        try:
            ab = (a == b)
            ba = (b == a)
        except Exception as e:                          # noqa: BLE001
            once("eq_raises", f"{a!r} == {b!r} raised {type(e).__name__}: "
                 f"{e}")
            return
        if ab is NotImplemented or ba is NotImplemented:
            ab = False if ab is NotImplemented else ab
            ba = False if ba is NotImplemented else ba
        if bool(ab) != want:
            once("eq_wrong", f"({a!r} == {b!r}) is {ab}, expected {want}")
        if bool(ab) != bool(ba):
            once("eq_wrong", f"== is not symmetric for {a!r}, {b!r}")

    def _laws_single(self, a, ns, once):
        try:
            if not (a == a):
                once("eq_wrong", f"{a!r} == itself is False")
        except Exception as e:                          # noqa: BLE001
            once("eq_raises", f"{a!r} == itself raised {type(e).__name__}:"
                 f" {e}")
        for other in (None, 0, ("x",), "Forward"):
            try:
                r = (a == other)
                if r is True:
                    once("eq_wrong", f"{a!r} == {other!r} is True")
            except Exception as e:                      # noqa: BLE001
                once("eq_raises", f"{a!r} == {other!r} raised "
                     f"{type(e).__name__}: {e}")
        try:
            b = eval(repr(a), dict(ns))                 # noqa: S307
            if type(b) is not type(a) or not _struct_eq(a, b):
                once("repr_roundtrip", f"eval(repr({a!r})) gave {b!r}")
            else:
                try:
                    if not (a == b):
                        once("repr_roundtrip",
                             f"eval(repr(a)) != a for {a!r}")
                except Exception:                       # noqa: BLE001
                    pass            # reported as eq_raises above
        except Exception as e:                          # noqa: BLE001
            once("repr_roundtrip", f"eval(repr({a!r})) raised "
                 f"{type(e).__name__}: {e}")
        kind = type(a).__name__
        if kind in ("Forward", "Reverse"):
            n0, n1 = (a.args[0], a.args[1]) if kind == "Forward" else \
                (a.args[1], a.args[0])
            try:
                if len(a) != n1 - n0:
                    once("iteration", f"len({a!r}) = {len(a)}")
                if n1 - n0 <= 10000:
                    got = list(a)
                    want = list(range(n0, n1))
                    if kind == "Reverse":
                        want.reverse()
                    if got != want:
                        once("iteration", f"list({a!r}) = {got[:6]}..., "
                             f"expected {want[:6]}...")
                probes = ((n0, True), (n1 - 1, True), (n0 - 1, False),
                          (n1, False))
                for x, exp in probes:
                    if (x in a) != exp:
                        once("iteration", f"({x} in {a!r}) is {x in a}")
            except Exception as e:                      # noqa: BLE001
                once("iteration", f"len/iter/in of {a!r} raised "
                     f"{type(e).__name__}: {e}")

    def nontrivial(self, w):
        for s in w.all_slots():
            if len(s.stream) >= 6 and len({t[0] for t in s.stream}) >= 3:
                return True
        return False
