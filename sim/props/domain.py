"""C17: valid parameters always yield a schedule; invalid ones fail before
any action.  Enumeration of the parameter box the property names, executed
on the simulator; seeded excursions beyond the box in the thorough tier."""

from .base import Base
from ..driver import Plan, draw_costs, draw_N

STORAGES = ("RAM", "DISK", "WORK", "NONE")
DEFAULT = {"uf": "1", "ub": "1", "wd": "2", "rd": "2"}


def box(nbox):
    out = []
    for n in range(0, nbox + 1):
        for r in range(0, n + 3):
            for d in range(0, n + 3):
                for traj in ("maximum", "revolve"):
                    out.append({"cls": "Multistage", "N": n,
                                "p": {"r": r, "d": d, "traj": traj}})
        for s in range(0, n + 3):
            for st in STORAGES:
                out.append({"cls": "Mixed", "N": n,
                            "p": {"s": s, "storage": st}})
            for c in ("Revolve", "DiskRevolve", "PeriodicDiskRevolve"):
                out.append({"cls": c, "N": n, "p": dict(DEFAULT, s=s)})
            for d in range(0, n + 3):
                out.append({"cls": "HRevolve", "N": n,
                            "p": dict(DEFAULT, s=s, d=d)})
        if n >= 1:
            out.append({"cls": "None", "N": n, "p": {}})
            out.append({"cls": "SingleMemory", "N": n, "p": {}})
            out.append({"cls": "SingleDisk", "N": n, "p": {"move": False}})
            out.append({"cls": "SingleDisk", "N": n, "p": {"move": True}})
            for period in range(0, 5):
                for b in range(0, min(n, 3) + 3):
                    for st in STORAGES:
                        for traj in ("maximum", "revolve"):
                            out.append({"cls": "TwoLevel", "N": n,
                                        "p": {"period": period, "b": b,
                                              "storage": st, "traj": traj}})
    return out


def domain(cfg):
    """'valid' | 'invalid' | 'either' (the one excluded point)."""
    c, n, p = cfg["cls"], cfg["N"], cfg["p"]
    if c in ("None", "SingleMemory", "SingleDisk"):
        return "valid"
    if c == "TwoLevel":
        if p["period"] < 1 or p["storage"] not in ("RAM", "DISK"):
            return "invalid"
        return "valid"
    if n < 1:
        return "invalid"
    if c == "Multistage":
        return "valid" if (n == 1 or p["r"] + p["d"] >= 1) else "invalid"
    if c == "Mixed":
        if p["storage"] not in ("RAM", "DISK"):
            return "invalid"
        return "valid" if (n == 1 or p["s"] >= 1) else "invalid"
    # Revolve family: at least one RAM unit
    if p["s"] >= 1:
        return "valid"
    if n == 1:
        return "either"     # property wording vs class documentation
    return "invalid"


class C17(Base):
    ID = "C17"
    TECHNIQUE = ('enumeration of the parameter box named by the property, each tuple constructed and executed on the simulator (reference machine guards), plus seeded excursions; no fault dimension')
    EXPECTED_PROBES = ('c17_invalid_tuples', 'c17_excluded_point')
    BATCH = 16
    NBOX = {"quick": 6, "thorough": 12}
    RULE = ("enumeration of the box the property names: every class variant,"
            " n in 0..6 (thorough 0..12), every unit count 0..n+2 (each of "
            "RAM/DISK where there are two), all four StorageType members, "
            "period 0..4, both trajectories, each tuple also constructed with "
            "numpy integers / keyword arguments; then seeded excursions "
            "(larger n, seeded positive dyadic costs); valid tuples must "
            "construct and run to their final action with no executability "
            "or phase guard firing, invalid tuples must raise at construction"
            " or at the first next() with zero actions emitted; non-trivial ="
            " a tuple on or next to the domain boundary (n <= 1, 0 units, "
            "units >= n, period 0/1, non-checkpoint storage)")
    ASSUMPTIONS = [
        "domain predicate from the statement and the class documentation; "
        "Revolve family with n = 1 and 0 RAM units is excluded (wording and "
        "documentation disagree; either behaviour accepted)",
        "the seed only orders the work and draws the excursions",
    ]

    def prepare(self, tier):
        self.box = box(self.NBOX[tier])

    def box_size(self):
        return len(self.box)

    def plan(self, rng, tier, idx):
        if idx < len(self.box):
            cfg = self.box[idx]
        elif idx < 2 * len(self.box):
            # the same box once more, constructed with numpy integers and/or
            # keyword arguments (unusual but legal calling forms)
            import copy
            cfg = copy.deepcopy(self.box[idx - len(self.box)])
            if cfg["p"]:
                cfg["p"]["call"] = ("np", "npkw", "kw")[idx % 3]
        else:
            from ..driver import draw_cfg, VARIANTS
            from .base import E1
            v = rng.choice([x for x in VARIANTS])
            cfg = draw_cfg(rng, v, 40 if tier == "quick" else 90, 40)
            if rng.random() < 0.06:
                # valid tuples with many steps (large-N stratum of E1)
                cfg, _ = E1().draw_large(rng, tier)
                return Plan([(cfg, 0 if cfg["cls"] == "None" else 1,
                              "every")])
            if "uf" in cfg["p"]:
                cfg["p"].update(draw_costs(rng))
            u = rng.random()
            # boundary excursions
            if u < 0.15 and cfg["cls"] == "Multistage":
                cfg["p"]["r"] = cfg["p"]["d"] = 0
            elif u < 0.3 and "s" in cfg["p"]:
                cfg["p"]["s"] = rng.choice((0, 1, cfg["N"] + 5))
            elif u < 0.4 and cfg["cls"] in ("Mixed", "TwoLevel"):
                cfg["p"]["storage"] = rng.choice(STORAGES)
            elif u < 0.5 and cfg["cls"] == "TwoLevel":
                cfg["p"]["period"] = rng.choice((0, -1, 1))
            elif u < 0.55 and cfg["cls"] not in ("None", "SingleMemory",
                                                 "SingleDisk", "TwoLevel"):
                cfg["N"] = rng.choice((0, 1, -1))
            if cfg["p"] and rng.random() < 0.2:
                cfg["p"]["call"] = rng.choice(("np", "kw", "npkw", "pos"))
            if "uf" in cfg["p"]:
                u = rng.random()
                if u < 0.25:
                    cfg["p"]["costs_int"] = True
                elif u < 0.37:
                    # numpy.float64 / fractions.Fraction costs
                    cfg["p"]["costs_form"] = "np" if u < 0.33 else "frac"
        passes = 0 if cfg["cls"] == "None" else 1
        return Plan([(cfg, passes, "every")])

    def check(self, w):
        for s in w.all_slots():
            dom = domain(s.cfg)
            if dom == "either":
                w.probe("c17_excluded_point")
                continue
            guard = [v for v in w.viol if v["slot"] == s.sid
                     and v["prop"] in ("C01", "C02")]
            if dom == "valid":
                if s.how == "construct_failed":
                    self.own(w, f"valid_rejected:{s.cls}", s,
                             f"constructor raised {s.construct_exc} for the "
                             f"valid tuple {s.cfg}", site=s.construct_exc)
                elif s.how == "raise":
                    exc, msg, at = s.raise_exc
                    self.own(w, "valid_rejected:" + s.cls if at == 0
                             else "valid_incomplete", s,
                             f"next() raised {exc}({msg!r}) after {at} "
                             f"actions for the valid tuple {s.cfg}")
                elif s.how is None:
                    continue        # the op list ends before the stream does
                elif s.how == "no_conclusion":
                    self.own(w, "valid_incomplete", s,
                             f"stream did not conclude ({s.how})")
                elif guard:
                    self.own(w, "valid_incomplete", s,
                             f"stream not executable: {guard[0]['detail']}")
                elif s.how == "stop" and s.machine.passes < min(
                        s.passes_wanted, 1):
                    self.own(w, "valid_incomplete", s,
                             "StopIteration before the adjoint calculation "
                             "completed")
            else:
                w.probe("c17_invalid_tuples")
                if s.how == "construct_failed":
                    continue
                if s.how == "raise" and s.raise_exc[2] == 0:
                    continue
                if s.how == "raise":
                    exc, msg, at = s.raise_exc
                    self.own(w, "raise_after_actions", s,
                             f"invalid tuple {s.cfg} raised {exc} only after "
                             f"{at} actions had been emitted")
                else:
                    self.own(w, "invalid_accepted", s,
                             f"invalid tuple {s.cfg} produced "
                             f"{len(s.stream)} actions and no exception")

    def nontrivial(self, w):
        for s in w.all_slots():
            p, n = s.cfg["p"], s.cfg["N"]
            units = [p[k] for k in ("r", "d", "s", "b") if k in p]
            if n <= 1 or 0 in units or any(u >= n for u in units) or \
                    p.get("period", 9) <= 1 or \
                    p.get("storage") in ("WORK", "NONE"):
                return True
        return False
