"""Registry of property checkers."""


def registry():
    from . import e1
    reg = {}
    for mod in (e1,):
        for name in dir(mod):
            obj = getattr(mod, name)
            if isinstance(obj, type) and getattr(obj, "ID", None) == name:
                reg[name] = obj
    for modname in ("proto", "optim", "domain"):
        try:
            mod = __import__(f"{__name__}.{modname}", fromlist=["x"])
        except ImportError:
            continue
        for name in dir(mod):
            obj = getattr(mod, name)
            if isinstance(obj, type) and getattr(obj, "ID", None) == name:
                reg[name] = obj
    return reg
