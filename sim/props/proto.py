"""Protocol properties on the multi-tenant engine E2: C09, C10, C11, C15."""

import json
from fractions import Fraction
import os
import subprocess
import sys

from .base import Base, E1, small_box
from ..driver import (Plan, VARIANTS, draw_cfg, draw_passes, ListDriver, run,
                      rng_for, OBS_KINDS)
from ..machine import passes_permitted, is_online
from .. import pristine

MAXSIZE = sys.maxsize


def split_passes(stream):
    """(forward part incl. EndForward, [pass1, pass2, ...])"""
    fwd, passes, cur = [], [], None
    for t in stream:
        if cur is None:
            fwd.append(t)
            if t[0] == "EndForward":
                cur = []
        else:
            cur.append(t)
            if t[0] == "EndReverse":
                passes.append(cur)
                cur = []
    if cur:
        passes.append(cur)
    return fwd, passes


# ---------------------------------------------------------------------------
# C09
# ---------------------------------------------------------------------------

class C09(Base):
    ID = "C09"
    TECHNIQUE = ('deterministic simulation with fault injection: multi-tenant worlds, seeded pass counts, observer reads at seeded instants, overrun next(), rejected finalize() calls, for-loop driving; history checked against the documented pass table and flag timeline')
    EXPECTED_PROBES = ('obs_before_first_next', 'obs_after_exhaustion', 'pass2')
    SIZES = {"quick": (32, 24), "thorough": (128, 64)}
    RULE = ("worlds of 1-3 (thorough: 1-6) interleaved schedules; per slot "
            "k in 0..4 adjoint passes requested, is_exhausted/is_running (and"
            " the other observers) read at seeded instants incl. before the "
            "first next() and after exhaustion, next() three more times "
            "after the final action; checked: obtainable passes = documented"
            " table, flag timeline, sticky StopIteration, every repeat pass "
            "structurally equal to pass 1 and executable on the machine; "
            "non-trivial = a flag was read both before and after the final "
            "action or a second pass was executed")
    ASSUMPTIONS = [
        "passes permitted per class as documented (None 0; offline classes "
        "and SingleDisk(move) 1; SingleMemory, SingleDisk(copy), TwoLevel "
        "unbounded)",
        "is_exhausted is judged only at reads where the final action was "
        "already emitted (must be True) or still to come (must be False)",
    ]

    def plan(self, rng, tier, idx):
        nmax, rfmax = self.SIZES[tier]
        box = small_box(6)
        nslots = 1 if rng.random() < 0.5 else rng.randint(
            2, 3 if tier == "quick" else 6)
        slots = []
        for j in range(nslots):
            if j == 0 and idx < len(box):
                cfg, _ = box[idx]
            else:
                cfg = draw_cfg(rng, rng.choice(VARIANTS), nmax, rfmax)
            perm = passes_permitted(cfg["cls"], cfg["p"])
            k = rng.choice((0, 1, 1, 2, 2, 3, 4))
            if perm == 0 and rng.random() < 0.5:
                k = 0
            style = "every" if rng.random() < 0.7 else "first"
            if rng.random() < 0.35:
                style += "+for"
            slots.append((cfg, k, style))
        faults = {"obs": rng.choice((0.15, 0.3, 0.5)), "obs_before": 0.7}
        if rng.random() < 0.15:
            # finalize() calls that must be rejected (and, being rejected,
            # change nothing): everything the property says still holds
            faults["badfin"] = rng.choice((0.05, 0.15))
        kinds = ("is_exhausted",) * 4 + ("is_running",) * 3 + OBS_KINDS
        return Plan(slots, faults=faults, interleave=nslots > 1, overrun=3,
                    conclude_obs=2, obs_kinds=kinds)

    def check(self, w):
        for s in w.all_slots():
            if s.how == "raise":
                exc, msg, at = s.raise_exc
                self.own(w, f"aborted:{exc}", s,
                         f"next() raised {exc}({msg!r}) after {at} actions: "
                         f"the schedule did not conclude")
            if s.how in ("construct_failed", "raise", "no_conclusion"):
                continue
            m = s.machine
            perm = s.permitted
            k = s.passes_wanted
            # number of passes obtainable
            if s.how in ("enough", "stop"):
                want = k if perm is None else min(k, perm)
                if m.passes != want:
                    self.own(w, "pass_count", s,
                             f"{m.passes} adjoint calculations obtained, "
                             f"{want} expected (requested {k}, permitted "
                             f"{'any number' if perm is None else perm})")
                if s.how == "stop" and not s.final_emitted:
                    self.own(w, "pass_count", s,
                             "StopIteration before the final action of the "
                             "last permitted calculation")
                if perm is not None and k > perm and s.how != "stop":
                    self.own(w, "pass_count", s,
                             f"calculation {perm + 1} was not refused")
            if s.final_emitted and any(x != "stop" for x in s.post):
                self.own(w, "stopiteration_not_sticky", s,
                         f"next() after the final action gave {s.post}")
            total = len(s.stream)
            for rec in s.obs:
                nexts, what, out, final, stops, at = rec[:6]
                if what == "is_exhausted":
                    if out[0] == "raise":
                        self.own(w, "exhausted_early", s,
                                 f"is_exhausted raised {out[1]}")
                    elif final or stops:
                        if out[1] is not True:
                            self.own(w, "exhausted_late", s,
                                     f"is_exhausted is {out[1]} after the "
                                     f"final action (action {at} of {total})",
                                     site="after_final")
                    elif out[1] is not False:
                        self.own(w, "exhausted_early", s,
                                 f"is_exhausted is {out[1]} after {at} "
                                 f"actions although actions remain",
                                 site=f"before_final")
                elif what == "is_running":
                    if out[0] == "raise":
                        self.own(w, "is_running_before", s,
                                 f"is_running raised {out[1]}")
                    elif nexts == 0:
                        if out[1] is not False:
                            self.own(w, "is_running_before", s,
                                     f"is_running is {out[1]} before the "
                                     "first next()")
                    elif at >= 1 and out[1] is not True:
                        self.own(w, "is_running_after", s,
                                 f"is_running is {out[1]} after {at} "
                                 "actions were emitted")
            _, passes = split_passes(s.stream)
            done = [p for p in passes if p and p[-1][0] == "EndReverse"]
            for j in range(1, len(done)):
                if done[j] != done[0]:
                    self.own(w, "repeat_differs", s,
                             f"pass {j + 1} differs from pass 1")
                    break
        for v in list(w.viol):
            if v["prop"] == "C01" and v.get("pass", 0) >= 1:
                s = next((x for x in w.all_slots() if x.sid == v["slot"]),
                         None)
                if s is not None:
                    self.own(w, "repeat_not_executable", s,
                             f"pass {v['pass'] + 1}: {v['detail']}")

    def nontrivial(self, w):
        for s in w.all_slots():
            if s.machine.passes >= 2:
                return True
            b = any(not r[3] and not r[4] for r in s.obs)
            a = any(r[3] or r[4] for r in s.obs)
            if a and b:
                return True
        return False


# ---------------------------------------------------------------------------
# C11
# ---------------------------------------------------------------------------

class C11(Base):
    ID = "C11"
    TECHNIQUE = ('deterministic simulation with observer injection: uses_storage_type queried at seeded instants in multi-tenant worlds, compared with the storages the executed stream touches')
    EXPECTED_PROBES = ('obs_before_first_next', 'obs_after_exhaustion')
    SIZES = {"quick": (32, 24), "thorough": (128, 64)}
    RULE = ("worlds of 1-3 interleaved schedules; uses_storage_type queried "
            "for all four StorageType members at seeded instants (before the "
            "first next(), in both phases, after exhaustion); truth = the "
            "RAM/DISK labels named by Forward.storage (when something is "
            "written) and Copy/Move source/destination in the executed "
            "stream; non-trivial = a storage the stream touches was queried "
            "at two or more distinct instants")
    ASSUMPTIONS = ["over-reporting is allowed, as the property says",
                   "a falsy answer (False or None) counts as 'not used'"]

    def plan(self, rng, tier, idx):
        nmax, rfmax = self.SIZES[tier]
        box = small_box(6)
        nslots = 1 if rng.random() < 0.6 else rng.randint(2, 3)
        slots = []
        for j in range(nslots):
            if j == 0 and idx < len(box):
                cfg, k = box[idx]
            else:
                cfg = draw_cfg(rng, rng.choice(VARIANTS), nmax, rfmax)
                k = draw_passes(rng, cfg, 2)
            slots.append((cfg, k, "every"))
        faults = {"obs": rng.choice((0.2, 0.4)), "obs_before": 0.9}
        kinds = ("uses:RAM", "uses:DISK") * 3 + ("uses:WORK", "uses:NONE") \
            + OBS_KINDS
        return Plan(slots, faults=faults, interleave=nslots > 1, overrun=1,
                    conclude_obs=4, obs_kinds=kinds)

    def check(self, w):
        for s in w.all_slots():
            truth = set()
            for t in s.stream:
                if t[0] == "Forward" and t[5] in ("RAM", "DISK") and \
                        (t[3] or t[4]):
                    truth.add(t[5])
                elif t[0] in ("Copy", "Move"):
                    for x in (t[2], t[3]):
                        if x in ("RAM", "DISK"):
                            truth.add(x)
            raised, under = set(), set()
            for rec in s.obs:
                what, out = rec[1], rec[2]
                if not what.startswith("uses:"):
                    continue
                member = what[5:]
                if out[0] == "raise":
                    if member not in raised:
                        raised.add(member)
                        self.own(w, f"query_raises:{member}", s,
                                 f"uses_storage_type(StorageType.{member}) "
                                 f"raised {out[1]} after {rec[5]} actions",
                                 site=member)
                elif member in truth and not out[1]:
                    if member not in under:
                        under.add(member)
                        self.own(w, f"under_reports:{member}", s,
                                 f"uses_storage_type(StorageType.{member}) "
                                 f"is {out[1]} (asked after {rec[5]} "
                                 f"actions) but the stream uses {member}",
                                 site=member)

    def nontrivial(self, w):
        for s in w.all_slots():
            seen = {}
            for rec in s.obs:
                if rec[1] in ("uses:RAM", "uses:DISK"):
                    seen.setdefault(rec[1], set()).add(rec[5])
            if any(len(v) >= 2 for v in seen.values()) and s.stream:
                return True
        return False


# ---------------------------------------------------------------------------
# C10
# ---------------------------------------------------------------------------

def k_pool(told, N):
    out = []
    for k in (-1, 0, 1, told - 1, told, told + 1, N - 1, N, N + 1, MAXSIZE):
        if k not in out:
            out.append(k)
    return out


def c10_box(nmax, passes_max):
    """Configurations of the single-fault enumeration box."""
    box = []
    for N in range(1, nmax + 1):
        box.append(({"cls": "None", "N": N, "p": {}}, 0))
        box.append(({"cls": "SingleMemory", "N": N, "p": {}}, passes_max))
        box.append(({"cls": "SingleDisk", "N": N, "p": {"move": False}},
                    passes_max))
        box.append(({"cls": "SingleDisk", "N": N, "p": {"move": True}}, 1))
        for period in range(1, min(N + 1, 4) + 1):
            for b in (0, 1, 2):
                for st in ("RAM", "DISK"):
                    box.append(({"cls": "TwoLevel", "N": N,
                                 "p": {"period": period, "b": b,
                                       "storage": st, "traj": "maximum"}},
                                passes_max))
        units = sorted({1, 2, N})
        for traj in ("maximum", "revolve"):
            for r, d in ((0, u) for u in units):
                box.append(({"cls": "Multistage", "N": N,
                             "p": {"r": r, "d": d, "traj": traj}}, 1))
            box.append(({"cls": "Multistage", "N": N,
                         "p": {"r": 1, "d": 1, "traj": traj}}, 1))
        for st in ("RAM", "DISK"):
            for s in units:
                box.append(({"cls": "Mixed", "N": N,
                             "p": {"s": s, "storage": st}}, 1))
        costs = {"uf": "1", "ub": "1", "wd": "2", "rd": "2"}
        for s in (1, 2):
            for c in ("Revolve", "DiskRevolve", "PeriodicDiskRevolve"):
                box.append(({"cls": c, "N": N, "p": dict(costs, s=s)}, 1))
            box.append(({"cls": "HRevolve", "N": N,
                         "p": dict(costs, s=s, d=1)}, 1))
    return box


class EnumDriver:
    """Single-fault enumeration for one configuration: slot 0 is the
    fault-free history of H next() calls; then for every instant i in 0..H+2
    and every k of the pool one fresh slot gets i next() calls, one injected
    finalize(k), and is drained."""

    def __init__(self, cfg, passes):
        self.cfg, self.passes = cfg, passes
        self.stage = 0
        self.queue = [["new", 0, cfg, passes, "every"], ["drain", 0],
                      ["over", 0], ["over", 0]]
        self.H = None
        self.i = 0
        self.ks = None
        self.sid = 0

    def next_op(self, w):
        if self.queue:
            return self.queue.pop(0)
        if self.H is None:
            s0 = w.slots.get(0)
            if s0 is None or s0.how == "construct_failed":
                return None
            self.H = s0.nexts
        if self.i > self.H:
            return None
        if self.ks is None:
            # probe slot: advance to instant i to learn `told`
            self.sid += 1
            self.queue = [["new", self.sid, self.cfg, self.passes, "every"]] \
                + [["over" if j >= self.H - 2 else "next", self.sid]
                   for j in range(self.i)]
            self.ks = "probe"
            return self.queue.pop(0)
        if self.ks == "probe":
            s = w.slots[self.sid]
            self.ks = k_pool(s.told, s.N)
            k = self.ks.pop(0)
            self.queue = [["fin", self.sid, k], ["drain", self.sid],
                          ["over", self.sid], ["del", self.sid]]
            return self.queue.pop(0)
        if self.ks:
            k = self.ks.pop(0)
            self.sid += 1
            self.queue = [["new", self.sid, self.cfg, self.passes, "every"]] \
                + [["over" if j >= self.H - 2 else "next", self.sid]
                   for j in range(self.i)] \
                + [["fin", self.sid, k], ["drain", self.sid],
                   ["over", self.sid], ["del", self.sid]]
            return self.queue.pop(0)
        self.ks = None
        self.i += 1
        return self.next_op(w)


class C10(Base):
    ID = "C10"
    EXPECTED_PROBES = ('c10_accepted', 'c10_late_or_early_accept', 'c10_rejected_mid_reverse', 'c10_noop', 'c10_stream_compared')
    LEVEL = "fault_enumeration"
    TECHNIQUE = ("deterministic simulation with fault injection: single-fault"
                 " enumeration of finalize(k) at every instant of small "
                 "histories plus seeded multi-fault next()/finalize(k) "
                 "histories, judged by a reference protocol model")
    BATCH = 8
    SIZES = {"quick": (40, 24), "thorough": (64, 48)}
    BOX = {"quick": (6, 2), "thorough": (8, 3)}
    RULE = ("layer 1: for every configuration of the box (all 13 class "
            "variants, N <= 6 quick / 8 thorough) the fault-free history of H"
            " next() calls is taken and one finalize(k) is injected at every "
            "instant 0..H (incl. before the first next() and after "
            "exhaustion) for every k in {-1,0,1,told-1,told,told+1,N-1,N,N+1,"
            "maxsize}; layer 2: seeded histories mixing next() and "
            "finalize(k) (rates 0.3-0.5), on-time and late (manual) "
            "finalisation, several slots; each call judged by the protocol "
            "model (verdict, exception type, state unchanged on "
            "reject/no-op, post state and EndForward on accept) and the rest "
            "of the stream compared with the fault-free baseline of the "
            "finalised N; non-trivial = at least one injected finalize was "
            "judged and the stream afterwards compared with its baseline")
    ASSUMPTIONS = [
        "protocol model of DESIGN 5.5; 'told' = n1 of the last forward-phase"
        " Forward emitted; 'pos' = the machine's forward position",
        "a finalize(max_n) call is not judged where the forward position is "
        "undefined (after loading an adjoint-dependency checkpoint)",
        "an accepted finalize(k) with k > 10^6 is judged but the stream "
        "afterwards is not executed",
    ]
    _base_cache = None

    def prepare(self, tier):
        n, p = self.BOX[tier]
        self.box = c10_box(n, p)

    def box_size(self):
        return len(self.box)

    def plan(self, rng, tier, idx):
        if idx < len(self.box):
            cfg, passes = self.box[idx]
            return EnumDriver(cfg, passes)
        nmax, rfmax = self.SIZES[tier]
        nslots = 1 if rng.random() < 0.6 else rng.randint(2, 4)
        slots = []
        for _ in range(nslots):
            v = rng.choice(VARIANTS)
            cfg = draw_cfg(rng, v, nmax, rfmax)
            if cfg["cls"] == "TwoLevel" and rng.random() < 0.5:
                cfg["N"] = max(1, cfg["N"] + rng.choice((-1, 0, 1)))
            k = draw_passes(rng, cfg, 2)
            style = "every" if (rng.random() < 0.55
                                or not is_online(cfg["cls"])) else "manual"
            slots.append((cfg, k, style))
        faults = {"fin": rng.choice((0.3, 0.4, 0.5)), "fin_before": 0.5,
                  "fin_after": 0.6}
        return Plan(slots, faults=faults, interleave=nslots > 1, overrun=1)

    # baseline of a configuration: on-time run, same process
    def baseline(self, cfg, passes):
        if C10._base_cache is None:
            C10._base_cache = {}
        key = json.dumps([cfg, passes], sort_keys=True)
        c = C10._base_cache
        if key not in c:
            if len(c) > 4000:
                c.clear()
            w = run(ListDriver([["new", 0, cfg, passes, "every"],
                                ["drain", 0], ["over", 0]]),
                    monitor_counters=False)
            s = w.all_slots()[0]
            c[key] = (list(s.stream), s.how)
        return c[key]

    def check(self, w):
        for s in w.all_slots():
            if s.how == "construct_failed":
                continue
            injected_accept = None
            for rec in s.fins:
                self.judge(w, s, rec)
                if rec["out"] == "ok" and rec["pre"][2] is None:
                    injected_accept = rec
            if s.how in ("raise", "no_conclusion", "huge"):
                if s.how == "raise" and s.fins:
                    exc, msg, at = s.raise_exc
                    self.own(w, "stream_changed", s,
                             f"after injected finalize calls next() raised "
                             f"{exc}({msg!r}) at action {at}")
                continue
            if not s.fins:
                continue
            if not s.stream:
                continue
            cfgN = dict(s.cfg, N=s.N)
            base, how = self.baseline(cfgN, s.passes_wanted)
            mine = s.stream
            if injected_accept is None and s.style != "manual":
                a, b = mine, base
                what = "whole stream"
            else:
                def tail(st):
                    for i, t in enumerate(st):
                        if t[0] == "EndForward":
                            return st[i:]
                    return None
                a, b = tail(mine), tail(base)
                if a is None:
                    continue
                b = b or []
                what = "stream from EndForward on"
            L = min(len(a), len(b))
            if how in ("stop", "enough") and s.how in ("stop", "enough") \
                    and len(a) < len(b) and s.how == "stop":
                L = len(b)      # mine ended early: a real difference
            a, b = a[:L], b[:L]
            if a != b:
                j = next((i for i, (x, y) in enumerate(zip(a, b)) if x != y),
                         min(len(a), len(b)))
                self.own(w, "stream_changed", s,
                         f"{what} differs from the fault-free baseline "
                         f"(N={s.N}) at position {j}: "
                         f"{a[j] if j < len(a) else None} vs "
                         f"{b[j] if j < len(b) else None}")
            w.probe("c10_stream_compared")

    def judge(self, w, s, rec):
        k, out, pre, post = rec["k"], rec["out"], rec["pre"], rec["post"]
        if pre and pre[0] == "raise":
            return
        w.probe("c10_judged")
        max_n = pre[2]
        verdict = None
        if k < 1:
            verdict = "ValueError"
        elif max_n is None:
            verdict = "ok" if rec["told"] >= k else "RuntimeError"
        else:
            if k != max_n:
                verdict = "RuntimeError"
            elif rec["pos"] is None:
                verdict = None          # not judged
            else:
                verdict = "ok" if rec["pos"] == max_n else "RuntimeError"
        if verdict is None:
            w.probe("c10_not_judged_pos_undefined")
        elif verdict == "ok" and out != "ok":
            self.own(w, "rejected_should_accept", s,
                     f"finalize({k}) raised {out} with max_n={max_n}, "
                     f"told={rec['told']}, forward at {rec['pos']}",
                     site="injected")
        elif verdict != "ok" and out == "ok":
            self.own(w, "accepted_should_reject", s,
                     f"finalize({k}) was accepted with max_n={max_n}, "
                     f"told={rec['told']}, forward at {rec['pos']}; expected "
                     f"{verdict}")
            w.probe("c10_wrongly_accepted")
        elif verdict != "ok" and out != verdict:
            self.own(w, "wrong_exception", s,
                     f"finalize({k}) raised {out}, expected {verdict}")
        if out != "ok":
            w.probe("c10_rejected")
            if rec["phase"] == "REV":
                w.probe("c10_rejected_mid_reverse")
            if pre != post:
                self.own(w, "state_changed_on_reject", s,
                         f"rejected finalize({k}) changed (n, r, max_n) from "
                         f"{pre} to {post}")
        elif max_n is not None:
            w.probe("c10_noop")
            if pre != post:
                self.own(w, "state_changed_on_reject", s,
                         f"no-op finalize({k}) changed (n, r, max_n) from "
                         f"{pre} to {post}")
        else:
            w.probe("c10_accepted")
            if rec["told"] > k:
                w.probe("c10_late_or_early_accept")
            if post != [k, pre[1], k]:
                self.own(w, "post_finalize_state", s,
                         f"accepted finalize({k}) left (n, r, max_n) = "
                         f"{post}")
            if len(s.stream) > rec["at"] and \
                    s.stream[rec["at"]][0] != "EndForward":
                self.own(w, "next_not_endforward", s,
                         f"after the accepted finalize({k}) the next action "
                         f"was {s.stream[rec['at']]}")

    def nontrivial(self, w):
        return w.probes.get("c10_judged", 0) > 0 and \
            w.probes.get("c10_stream_compared", 0) > 0


# ---------------------------------------------------------------------------
# C15
# ---------------------------------------------------------------------------

HELPERS = ("optimal_steps_binomial", "optimal_steps_mixed",
           "mixed_step_memoization", "n_advance")


class C15(Base):
    ID = "C15"
    TECHNIQUE = ('deterministic simulation: multi-tenant worlds under a seeded cooperative scheduler and a seeded pre-emptive scheduler (threads released one at a time at sys.settrace line events; random hand-overs, whole-call excursions and pinned sweeps over the lines of a constructor), streams compared with pristine-process baselines')
    EXPECTED_PROBES = ('c15_baselines', 'c15_observer_pairs', 'e3_worlds', 'e3_excursions', 'e3_pinned_excursions', 'c15_late_finalised_slots')
    FORK_PER_RUN = True
    SIZES = {"quick": (32, 24), "thorough": (128, 64)}
    SLOTS = {"quick": (2, 6), "thorough": (2, 40)}
    RULE = ("worlds of 2-6 (thorough: up to 40) schedules constructed, "
            "stepped in seeded interleavings, observed and dropped, with "
            "direct calls of the memoised public helpers as further "
            "co-tenants and parameter draws colliding on memo keys; every "
            "slot's stream is compared with the stream of the same "
            "configuration drained alone in a process forked from a parent "
            "that has only imported the package; each world is executed a "
            "second time, in such a process, without its observer ops; "
            "non-trivial = at least two schedules were alive at once and "
            "their next() calls interleaved; distinct interleavings = "
            "distinct sequences of slot ids over next ops")
    ASSUMPTIONS = [
        "the baseline process is forked from a parent that has imported the "
        "package and nothing else; a sample of baselines is recomputed in a "
        "genuinely fresh interpreter under another PYTHONHASHSEED",
        "in the cooperative worlds a schedule is suspended only between its "
        "own calls; thread-level pre-emption inside a call is engine E3 (8% "
        "of quick and 30% of thorough runs: random hand-overs and whole-call "
        "excursions at line events; 3% / 5% of runs: pinned sweeps, one "
        "world per line k = 1..20 of a constructor plus 8 (thorough: 24) "
        "drawn lines of "
        "the task's life)",
    ]
    helper = None

    def begin_run(self):
        self.helper = pristine.Helper()
        self.helper.start()

    def end_run(self):
        if self.helper is not None:
            self.helper.stop()
            self.helper = None

    E3_SHARE = {"quick": 0.08, "thorough": 0.3}

    CROWD_SHARE = {"quick": 0.04, "thorough": 0.04}

    def crowd(self, rng, tier):
        """One observed schedule, stepped a little, then a crowd of 130-300
        tiny schedules of the same family each constructed and stepped once,
        then the observed one carries on (many co-tenants at once)."""
        nmax, rfmax = self.SIZES[tier]
        fam = rng.choice((
            ("Revolve", "DiskRevolve", "PeriodicDiskRevolve", "HRevolve"),
            ("MultistageMax", "MultistageRev"), ("MixedRAM", "MixedDISK"),
            ("TwoLevel",), ("SingleMemory",), ("SingleDiskCopy",
                                               "SingleDiskMove"),
            ("None",)))
        cfg = draw_cfg(rng, rng.choice(fam), min(nmax, 24), min(rfmax, 20))
        if cfg["N"] < 3:
            cfg["N"] = rng.randint(3, 12)
        passes = draw_passes(rng, cfg, 2)
        ops = [["new", 0, cfg, passes, "every"]]
        ops += [["next", 0]] * rng.randint(1, 3)
        k = rng.choice((130, 140, 200, 300))
        keep = rng.random() < 0.5
        for j in range(1, k + 1):
            c = draw_cfg(rng, rng.choice(fam), 4, 4)
            ops.append(["new", j, c, 1, "every"])
            ops.append(["next", j])
            if not keep:
                ops.append(["del", j])
        ops += [["drain", 0], ["over", 0]]
        return ListDriver(ops)

    PIN_SHARE = {"quick": 0.03, "thorough": 0.05}
    #: share of E3 worlds with one task of more than 500 units
    E3_MANY_UNITS = {"quick": 0.01, "thorough": 0.01}

    def pinned(self, rng, tier):
        """Engine E3, pinned sweep: two small tasks of one family; for k =
        1..20 one world in which the second task's first library call (its
        whole constructor) runs in the middle of the first task's
        constructor, at its k-th line; plus 8 worlds in which a whole call
        of the second task runs at a log-uniformly drawn line of the first
        task's life (inside one of its next() calls).  Enumerates, rather
        than samples, check-then-act windows on state shared between objects
        within one call."""
        fam = rng.choice((
            ("Revolve", "DiskRevolve", "PeriodicDiskRevolve", "HRevolve",
             "HRevolve"),
            ("MultistageMax", "MultistageRev"), ("MultistageMax",
                                                 "MultistageRev", "TwoLevel"),
            ("MixedRAM", "MixedDISK"),
            ("TwoLevel",), ("SingleMemory", "SingleDiskCopy",
                            "SingleDiskMove", "None")))
        tasks = []
        for _ in range(2):
            cfg = draw_cfg(rng, rng.choice(fam), 12, 10)
            if cfg["N"] < 4:
                cfg["N"] = rng.randint(4, 12)
            if cfg["cls"] == "Multistage" and rng.random() < 0.7:
                # both unit kinds really in use
                cfg["p"]["r"] = rng.randint(1, 3)
                cfg["p"]["d"] = rng.randint(1, 3)
            tasks.append([cfg, draw_passes(rng, cfg, 2)])
        u = rng.random()
        if u < 0.35:
            # exact twins: two equal schedules in two threads
            import copy
            tasks[1] = copy.deepcopy(tasks[0])
        elif u < 0.6 and tasks[0][0]["cls"] == tasks[1][0]["cls"]:
            # same size, other parameters: collisions on shared keys
            tasks[1][0]["N"] = tasks[0][0]["N"]
        seed = rng.getrandbits(48)
        ops = [["e3", seed, tasks, 0, 0, 0,
                [0, "ctor", k, "one" if k % 2 else "all"]]
               for k in range(1, 21)]
        import math
        for _ in range(8 if tier == "quick" else 24):
            # the other task's whole life at a drawn line of this one's
            k = int(math.exp(rng.uniform(math.log(20), math.log(6000))))
            ops.append(["e3", seed, tasks, 0, 0, 0, [0, "any", k, "all"]])
        return ListDriver(ops)

    SUBPROBLEM_SHARE = {"quick": 0.02, "thorough": 0.03}

    def subproblem(self, rng, tier):
        """A PeriodicDiskRevolve schedule together with its own memory-only
        sub-problems as separate Revolve objects (one period; the last
        segment), same RAM units and step costs, interleaved.  The classes of
        the family are built from the same sequence generators and tables,
        so a schedule and a piece of it alive at once is the sharpest
        collision there is.  Disk is dear here (ratio up to 800) so that the
        period is long (up to 165 steps)."""
        from .. import oracles as O
        c = rng.choice((1, 2, 2, 3, 3))
        uf = rng.choice(("1", "1", "2", "1/2"))
        ub = rng.choice(("1", uf, "2"))
        wd = rd = rng.choice(("8", "40", "100", "200", "400"))
        if rng.random() < 0.3:
            rd = rng.choice(("8", "40", "100"))
        costs = {"uf": uf, "ub": ub, "wd": wd, "rd": rd}
        scale = O.cost_scale(costs)
        m = O.period_closed_form(c, *(int(Fraction(costs[k]) * scale)
                                      for k in ("uf", "ub", "wd", "rd")))
        m = min(m, 200)
        last = rng.randint(2, m)
        N = m * rng.randint(1, 2) + last
        per = ({"cls": "PeriodicDiskRevolve", "N": N, "p": dict(costs, s=c)},
               1, "every")
        subs = [({"cls": "Revolve", "N": n, "p": dict(costs, s=c)}, 1,
                 "every") for n in {last, m} if n >= 2]
        slots = subs[:1] + [per] + subs[1:]
        if rng.random() < 0.5:
            slots.reverse()
        return Plan(slots, faults={"obs": 0.05}, interleave=True, overrun=1)

    def plan(self, rng, tier, idx):
        nmax, rfmax = self.SIZES[tier]
        lo, hi = self.SLOTS[tier]
        if rng.random() < self.CROWD_SHARE[tier]:
            return self.crowd(rng, tier)
        if rng.random() < self.SUBPROBLEM_SHARE[tier]:
            return self.subproblem(rng, tier)
        if rng.random() < self.PIN_SHARE[tier]:
            return self.pinned(rng, tier)
        share = float(os.environ.get("VERIF_E3_SHARE") or self.E3_SHARE[tier])
        e3 = rng.random() < share
        nslots = rng.randint(lo, hi if (rng.random() < 0.2 and not e3)
                             else min(hi, 6))
        slots = []
        pivot_n = rng.randint(2, min(nmax, 24))
        pivot_s = rng.randint(1, pivot_n)
        pivot_r = rng.randint(1, 4)
        pivot_d = rng.randint(1, 4)
        from ..driver import draw_costs
        pivot_costs = draw_costs(rng)
        family = None
        if e3:
            nmax, rfmax = min(nmax, 40), min(rfmax, 32)
            if rng.random() < 0.6:
                # tasks of one family share the most code
                family = rng.choice((
                    ("Revolve", "DiskRevolve", "PeriodicDiskRevolve",
                     "HRevolve", "HRevolve"),
                    ("MultistageMax", "MultistageRev", "TwoLevel"),
                    ("MixedRAM", "MixedDISK"),
                    ("SingleMemory", "SingleDiskCopy", "SingleDiskMove",
                     "None", "TwoLevel")))
        for _ in range(nslots):
            v = rng.choice(family or VARIANTS)
            cfg = draw_cfg(rng, v, nmax, rfmax)
            if rng.random() < 0.4 and cfg["cls"] in ("Multistage", "Mixed"):
                # collide on memo / cache keys: same or neighbouring (n, s),
                # same totals with different splits and trajectories
                cfg["N"] = max(1, pivot_n + rng.choice((-1, 0, 0, 0, 1)))
                s = max(1, pivot_s + rng.choice((-1, 0, 0, 0, 1, 40)))
                if cfg["cls"] == "Mixed":
                    cfg["p"]["s"] = s
                else:
                    r = rng.randint(0, s)
                    cfg["p"]["r"], cfg["p"]["d"] = r, s - r
                    if rng.random() < 0.5:
                        # exactly the pivot tuple: differs from its twins
                        # in the trajectory only
                        cfg["N"] = pivot_n
                        cfg["p"]["r"], cfg["p"]["d"] = pivot_r, pivot_d
            elif cfg["cls"] == "TwoLevel" and rng.random() < 0.4:
                # same period, units and trajectory (other sizes, storages)
                cfg["p"]["period"] = 1 + pivot_n % 7
                cfg["p"]["b"] = pivot_r
                cfg["p"]["traj"] = ("maximum", "revolve")[pivot_d % 2]
                if rng.random() < 0.5:
                    cfg["N"] = pivot_n
            elif "uf" in cfg["p"]:
                u = rng.random()
                if u < 0.25:
                    # same unit counts, different cost vectors
                    cfg["N"] = max(1, min(pivot_n + rng.choice((0, 0, 1, 7)),
                                          rfmax))
                    cfg["p"]["s"] = 1 + pivot_s % 3
                elif u < 0.55:
                    # same cost vector, different sizes and unit counts
                    cfg["p"].update(pivot_costs)
                elif u < 0.8:
                    # exact twins across the family: same size, RAM units
                    # and cost vector, another class
                    cfg["N"] = max(1, min(pivot_n, rfmax))
                    cfg["p"].update(pivot_costs)
                    cfg["p"]["s"] = 1 + pivot_s % 3
            slots.append((cfg, draw_passes(rng, cfg, 2), "every"))
        if e3 and rng.random() < self.E3_MANY_UNITS[tier]:
            # one task with more than 500 units (just below the diagonal, so
            # the stream stays short): the memoised planners recurse a few
            # frames per unit, so what another thread does to shared planner
            # state in the middle of a call can matter here and nowhere else
            big = rng.choice(("Mixed", "Mixed", "Multistage"))
            n_big = rng.randint(520, 600)
            if big == "Mixed":
                cfg = {"cls": "Mixed", "N": n_big,
                       "p": {"s": n_big - rng.randint(2, 4),
                             "storage": rng.choice(("RAM", "DISK"))}}
            else:
                cfg = {"cls": "Multistage", "N": n_big,
                       "p": {"r": 0, "d": n_big - rng.randint(2, 4),
                             "traj": rng.choice(("maximum", "revolve"))}}
            slots = slots[:2]
            slots.insert(rng.randint(0, len(slots)), (cfg, 1, "every"))
            tasks = [[cfg, passes] for cfg, passes, _ in slots]
            return ListDriver([["e3", rng.getrandbits(48), tasks,
                                rng.choice((0.002, 0.005, 0.02)),
                                rng.choice((0.05, 0.1, 0.3)),
                                rng.choice((0.5, 1.0))]])
        if e3:
            # engine E3: the same tasks, pre-empted at line granularity
            tasks = [[cfg, passes] for cfg, passes, _ in slots]
            return ListDriver([["e3", rng.getrandbits(48), tasks,
                                rng.choice((0.002, 0.005, 0.02)),
                                rng.choice((0.05, 0.1, 0.3)),
                                rng.choice((0.0, 0.0, 0.5, 1.0))]])
        calls = []
        for _ in range(rng.randint(0, 6)):
            fn = rng.choice(HELPERS)
            n = max(1, pivot_n + rng.choice((-2, -1, 0, 1, 2, 7)))
            s = max(1, pivot_s + rng.choice((-1, 0, 1, 50)))
            if fn != "n_advance":
                s = min(s, n - 1) if n > 1 else rng.choice((0, 1))
            op = ["call", fn, n, s]
            if fn == "n_advance":
                op.append(rng.choice(("maximum", "revolve")))
            calls.append(op)
        faults = {"obs": rng.choice((0.0, 0.1, 0.3)), "obs_before": 0.5,
                  "call": 0.15}
        if rng.random() < self.LATE_WORLDS:
            # late-finalisation world: online schedules are driven by hand
            # (the executor keeps asking for Forwards until an injected
            # finalize(k) is accepted), with observer reads in between; the
            # judge for these is the second execution of the same history
            # without the reads (a slot that saw an injected finalize is not
            # compared with the plain-executor baseline)
            slots = [(cfg, passes, "manual" if is_online(cfg["cls"])
                      else style) for cfg, passes, style in slots]
            while not any(is_online(c["cls"]) for c, _, _ in slots):
                cfg = draw_cfg(rng, rng.choice((
                    "None", "SingleMemory", "SingleDiskCopy",
                    "SingleDiskMove", "TwoLevel")), nmax, rfmax)
                slots.append((cfg, draw_passes(rng, cfg, 2), "manual"))
            faults.update(obs=rng.choice((0.2, 0.35)), fin=0.12)
        return Plan(slots, faults=faults, interleave=True, overrun=1,
                    calls=calls, conclude_obs=1)

    #: share of cooperative worlds with hand-driven online schedules
    LATE_WORLDS = 0.1

    WORLD_KW = {"monitor_counters": False}

    def check(self, w):
        if getattr(w, "e3_errors", None):
            raise RuntimeError(f"HARNESS: E3 world failed: {w.e3_errors}")
        if self.helper is None:
            return
        memo = {}
        crowd = len(w.all_slots()) > 100
        if crowd:
            w.probe("c15_crowd_worlds")
        for s in w.all_slots():
            if crowd and isinstance(s.sid, int) and s.sid > 3:
                continue        # crowd members: a few are baselined
            if s.fins or s.style == "manual":
                w.probe("c15_late_finalised_slots")
                continue        # judged by the observer pair below
            key = json.dumps([s.cfg, s.passes_wanted], sort_keys=True)
            if key not in memo:
                res = self.helper.ask(
                    [["new", 0, s.cfg, s.passes_wanted, "every"],
                     ["drain", 0], ["over", 0]])
                memo[key] = ([tuple(t) for t in res["0"]["stream"]],
                             res["0"].get("exc"))
                w.probe("c15_baselines")
            base, base_exc = memo[key]
            mine = s.stream
            mine_exc = s.construct_exc or (s.raise_exc[0] if s.raise_exc
                                           else None)
            if mine_exc != base_exc and mine_exc is not None:
                # an exception where the same configuration, alone in a
                # pristine process, raises none (or another one)
                self.own(w, "stream_differs_from_fresh", s,
                         f"{mine_exc} raised after {len(mine)} actions; the "
                         f"pristine-process run of the same configuration "
                         f"{'raised ' + base_exc if base_exc else 'ran on'}")
                continue
            if s.how == "construct_failed":
                continue
            if mine[:len(base)] != base[:len(mine)]:
                j = next((i for i, (x, y) in enumerate(zip(mine, base))
                          if x != y), min(len(mine), len(base)))
                self.own(w, "stream_differs_from_fresh", s,
                         f"stream differs from the pristine-process stream "
                         f"at position {j}: "
                         f"{mine[j] if j < len(mine) else None} vs "
                         f"{base[j] if j < len(base) else None}")
        # the same world without its observer ops, in a pristine process
        if any(op[0] == "obs" for op in w.ops):
            ops2 = [op for op in w.ops if op[0] != "obs"]
            res = self.helper.ask(ops2, {"monitor_counters": False})
            w.probe("c15_observer_pairs")
            for s in w.all_slots():
                other = res.get(str(s.sid))
                if other is None:
                    continue
                if [list(t) for t in s.stream] != other["stream"]:
                    self.own(w, "observer_perturbs", s,
                             "stream with observer reads differs from the "
                             "stream of the same history without them")
    def nontrivial(self, w):
        if w.probes.get("e3_switches", 0) >= 2:
            return True
        order = w.slot_order
        switches = sum(1 for a, b in zip(order, order[1:]) if a != b)
        return len({*order}) >= 2 and switches >= 2

    def post_campaign(self, seed, tier, agg):
        """Spot baselines in a genuinely fresh interpreter."""
        n = 24 if tier == "quick" else 200
        root = os.path.dirname(os.path.dirname(os.path.dirname(
            os.path.abspath(__file__))))
        cfgs = []
        for idx in range(n):
            rng = rng_for(seed, self.ID + "/fresh", tier, idx)
            nmax, rfmax = self.SIZES[tier]
            cfg = draw_cfg(rng, rng.choice(VARIANTS), nmax, rfmax)
            passes = draw_passes(rng, cfg, 2)
            cfgs.append([["new", 0, cfg, passes, "every"], ["drain", 0],
                         ["over", 0]])
        from ..campaign import fork_call
        mine = []
        for ops in cfgs:
            st, val = fork_call(lambda o: pristine.streams_of(o), ops, 300)
            mine.append(val if st == "ok" else st)
        env = dict(os.environ, PYTHONHASHSEED="987654")
        p = subprocess.run(
            [sys.executable, "-B", "-c",
             "import sys, json\n"
             "from sim import world, pristine\n"
             "world.lib()\n"
             "from sim.campaign import fork_call\n"
             "out = []\n"
             "for ops in json.load(sys.stdin):\n"
             "    st, val = fork_call(lambda o: pristine.streams_of(o), ops,"
             " 300)\n"
             "    out.append(val if st == 'ok' else st)\n"
             "json.dump(out, sys.stdout)\n"],
            input=json.dumps(cfgs), capture_output=True, text=True,
            cwd=root, env=env, timeout=3600)
        harness, viols = [], []
        try:
            theirs = json.loads(p.stdout)
        except ValueError:
            return {}, [f"fresh-interpreter baselines failed: "
                        f"{p.stderr[-300:]}"], []
        bad = 0
        for ops, a, b in zip(cfgs, mine, theirs):
            a = json.loads(json.dumps(a))
            if a != b:
                bad += 1
                viols.append(({"prop": self.ID,
                               "kind": "stream_differs_from_fresh",
                               "cls": ops[0][2]["cls"], "site": "hashseed",
                               "detail": "stream in a fresh interpreter under"
                               " another PYTHONHASHSEED differs from the "
                               "forked baseline", "op": 0}, ops))
        return {"fresh_interpreter_baselines": len(cfgs),
                "fresh_interpreter_mismatches": bad}, harness, viols
