"""Optimality / structure properties decided against reference models:
C05, C06, C07, C13, C14, C16, C19."""

from fractions import Fraction

from .base import Base, complete
from ..driver import (Plan, draw_N, draw_costs, draw_costs_inexact,
                      draw_units, UF_GRID, WD_GRID)
from .. import oracles as O


def _single_pass_done(s):
    return s.machine.passes >= 1 and s.how in ("enough", "stop")


def _cotenants(rng, nmax):
    """Light F6: a few other users of the shared memo tables."""
    slots, calls = [], []
    for _ in range(rng.choice((0, 0, 1, 2))):
        N = draw_N(rng, min(nmax, 24))
        if rng.random() < 0.5:
            slots.append(({"cls": "Mixed", "N": N,
                           "p": {"s": draw_units(rng, N, 1 if N > 1 else 0),
                                 "storage": rng.choice(("RAM", "DISK"))}},
                          1, "every"))
        else:
            slots.append(({"cls": "Multistage", "N": N,
                           "p": {"r": 0, "d": draw_units(rng, N, 1),
                                 "traj": rng.choice(("maximum",
                                                     "revolve"))}},
                          1, "every"))
    for _ in range(rng.choice((0, 1, 2, 3))):
        n = draw_N(rng, min(nmax, 30))
        s = rng.randint(1, max(1, n))
        if n > 1:
            s = min(s, n - 1) if rng.random() < 0.5 else s
        else:
            s = rng.choice((0, 1))
        calls.append(["call", rng.choice(("optimal_steps_binomial",
                                          "optimal_steps_mixed",
                                          "mixed_step_memoization")), n, s])
    return slots, calls


# ---------------------------------------------------------------------------
# C05
# ---------------------------------------------------------------------------

def _band_calls(fns, tier):
    """Helper calls along the near-diagonal band s = n - delta, delta =
    1..6, where the unit count is large (beyond 255) and recomputation is
    still needed: every n in 250..330 and 560, 700 (quick) / 250..360 and a
    sample up to 1025 (thorough).  They follow the sweep in the same process, so the memo
    table already holds the small-s entries of the neighbouring n."""
    ns = list(range(250, 331 if tier == "quick" else 361))
    # the largest first: a jump of several hundred units beyond anything the
    # memo table holds (recursion depth), then the band in increasing order
    if tier == "thorough":
        ns = [1025, 700, 1023] + ns + [420, 421, 511, 512, 513, 600, 699]
    else:
        ns = [700, 560] + ns
    ops = []
    for n in ns:
        for k in (1, 2, 5):
            # few units at the neighbouring step counts first
            for fn in fns:
                ops.append(["call", fn, n + 1, k])
        for delta in (1, 2, 3, 4, 6):
            for fn in fns:
                ops.append(["call", fn, n, n - delta])
    return ops


class C05(Base):
    ID = "C05"
    TECHNIQUE = ('deterministic simulation: seeded configurations executed on the reference machine inside worlds with co-tenants of the shared memo table; forward-step counter and helper values compared with the Griewank-Walther closed form (reference model validated by exact search); helper and n_advance sweeps')
    EXPECTED_PROBES = ('helper_sweep_entries',)
    FORK_PER_RUN = True
    SIZES = {"quick": (80, 48), "thorough": (600, 128)}
    RULE = ("one binomial schedule per run (Multistage: both trajectories, "
            "every kind of RAM/DISK split incl. clamped ones; Revolve: seeded "
            "positive cost vector), drained by the executor inside a world "
            "with co-tenants (other Multistage/Mixed schedules and direct "
            "helper calls before and between, sharing the process-global memo"
            " table), one fresh process per run; the machine's forward-step "
            "counter is compared with N + GW(N, min(s, N-1)) (closed form of "
            "Griewank & Walther 2000, Prop. 1) and with "
            "optimal_steps_binomial(N, s) called in the same world; "
            "non-trivial = N >= 3 and fewer than N-1 units (recomputation "
            "needed)")
    ASSUMPTIONS = [
        "optimum = Griewank & Walther closed form, re-implemented in "
        "sim/oracles.py and cross-checked against the recurrence and (small "
        "sizes) exact search over executor strategies at setup; the lower "
        "bound itself is taken from the literature",
        "a stream executes N + GW forward steps: every step is also advanced "
        "once with write_adj_deps",
    ]

    SWEEP = {"quick": (200, 24), "thorough": (400, 48)}
    LARGE = {"quick": 0.03, "thorough": 0.06}

    def plan(self, rng, tier, idx):
        nmax, rfmax = self.SIZES[tier]
        if idx < 3:
            from ..driver import ListDriver
            fn = ("optimal_steps_binomial", "n_advance:maximum",
                  "n_advance:revolve")[idx]
            nm, sm = self.SWEEP[tier]
            if idx:
                nm, sm = 2 * nm, 2 * sm
            ops = [["sweep", fn, nm, sm]]
            if idx == 0:
                # the one-unit closed form is O(1): probe very large n too
                for n in (65537, 2 ** 27 + 3, 10 ** 9 + 7, 3 * 10 ** 12 + 1,
                          2 ** 62 + 1):
                    ops.append(["call", "optimal_steps_binomial", n, 1])
                # many units: the band just below the diagonal
                ops += _band_calls(("optimal_steps_binomial",), tier)
            return ListDriver(ops)
        if rng.random() < self.LARGE[tier]:
            N = rng.randint(80, 400)
            if rng.random() < 0.5:
                s = rng.randint(2, 30)
                r = rng.randint(0, s)
                cfg = {"cls": "Multistage", "N": N,
                       "p": {"r": r, "d": s - r,
                             "traj": rng.choice(("maximum", "revolve"))}}
            else:
                cfg = {"cls": "Revolve", "N": N,
                       "p": dict(draw_costs(rng),
                                 s=1 if N > 300 else rng.choice((1, 2)))}
            return Plan([(cfg, 1, "every")])
        others, calls = _cotenants(rng, nmax)
        if rng.random() < 0.7:
            N = draw_N(rng, nmax, small=max(10, nmax // 6))
            s = draw_units(rng, N, 1 if N > 1 else 0)
            if rng.random() < 0.5:
                s = rng.randint(1, max(1, min(N, 8)))
            u = rng.random()
            if u < 0.3:
                r, d = 0, s
            elif u < 0.5:
                r, d = s, 0
            else:
                r = rng.randint(0, s)
                d = s - r
                if rng.random() < 0.2:
                    r += rng.randint(0, N)
                    d += rng.randint(0, N)
            if N > 1 and r + d < 1:
                d = 1
            cfg = {"cls": "Multistage", "N": N,
                   "p": {"r": r, "d": d,
                         "traj": rng.choice(("maximum", "revolve"))}}
            units = r + d
        else:
            N = draw_N(rng, rfmax, small=max(10, rfmax // 6))
            s = rng.choice((1, 1, 2, 2, 3, 4, 5, 6, 8, N, N + 1))
            s = max(1, min(s, 14))
            costs = draw_costs(rng)
            if rng.random() < 0.1:
                # costs that are not exact in binary floating point: the
                # step count is still decided (a wrong split costs a whole
                # forward step, rounding errors are 1e-13 at most)
                costs = draw_costs_inexact(rng)
            elif rng.random() < 0.12:
                # badly scaled (still exactly representable) cost vectors
                big = rng.choice(("1048576", "1073741824", "17179869184"))
                if rng.random() < 0.5:
                    costs.update(uf="1", ub=big)
                else:
                    costs.update(uf=rng.choice(("1/1048576", "1")), ub="1")
                    if costs["uf"] == "1":
                        costs["uf"], costs["ub"] = big, "1"
            cfg = {"cls": "Revolve", "N": N, "p": dict(costs, s=s)}
            units = s
        slots = others[:1] + [(cfg, 1, "every")] + others[1:]
        if N > 1 or units >= 1:
            calls.append(["call", "optimal_steps_binomial", N,
                          max(units, 0 if N == 1 else 1)])
        return Plan(slots, faults={"call": 0.3}, calls=calls,
                    interleave=len(slots) > 1 and rng.random() < 0.5)

    def check(self, w):
        for s in w.all_slots():
            if s.cls not in ("Multistage", "Revolve"):
                continue
            if not _single_pass_done(s):
                continue
            p = s.cfg["p"]
            units = p["r"] + p["d"] if s.cls == "Multistage" else p["s"]
            if s.N > 1 and units < 1:
                continue
            exp = O.binomial_total(s.N, max(units, 1)) if s.N > 1 else 1
            got = s.machine.fwd_steps
            if got > exp:
                self.own(w, "steps_above_optimum", s,
                         f"{got} forward steps executed, the binomial "
                         f"optimum for N={s.N}, s={units} is {exp}")
            elif got < exp:
                self.own(w, "steps_below_optimum", s,
                         f"{got} forward steps executed, fewer than the "
                         f"binomial optimum {exp} for N={s.N}, s={units}")
        nbad = 0
        for op, out in w.calls:
            if op[1] != "optimal_steps_binomial" and \
                    not op[1].startswith("n_advance:"):
                continue
            n, sn = op[2], op[3]
            if n > 1 and sn < 1:
                continue
            exp = O.binomial_total(n, max(sn, 1)) if n > 1 else 1
            if out != ["val", exp]:
                nbad += 1
                if nbad > 3:
                    continue
                if op[1].startswith("n_advance:"):
                    w.violation(self.ID, "n_advance_not_optimal", None,
                                f"the binomial recursion built from "
                                f"n_advance(trajectory={op[1][10:]!r}) takes "
                                f"{out} forward steps for n={n}, s={sn}; "
                                f"the optimum is {exp}")
                    w.viol[-1]["cls"] = "n_advance"
                    continue
                w.violation(self.ID, "helper_mismatch", None,
                            f"optimal_steps_binomial({n}, {sn}) returned "
                            f"{out}, the optimum is {exp}")
                w.viol[-1]["cls"] = "optimal_steps_binomial"

    def nontrivial(self, w):
        if w.probes.get("helper_sweep_entries", 0) > 0:
            return True
        for s in w.all_slots():
            if s.cls in ("Multistage", "Revolve") and s.N >= 3:
                p = s.cfg["p"]
                units = p["r"] + p["d"] if s.cls == "Multistage" else p["s"]
                if units < s.N - 1 and _single_pass_done(s):
                    return True
        return False


# ---------------------------------------------------------------------------
# C06
# ---------------------------------------------------------------------------

class C06(Base):
    ID = "C06"
    TECHNIQUE = ('deterministic simulation: paired RAM/DISK runs with the planner knob and co-tenants; forward-step counter compared with the reference recurrence (validated by exact search); planner-cost sweep')
    EXPECTED_PROBES = ('helper_sweep_entries', 'tabulated_planner_ran', 'mixed_deps_checkpoint')
    FORK_PER_RUN = True
    SIZES = {"quick": (60, 0), "thorough": (250, 0)}
    RULE = ("a pair of Mixed schedules (storage RAM and DISK, same N and s) "
            "per run, planner path (memoised / tabulated) drawn per run, "
            "co-tenants as in C05, one fresh process per run; the machine's "
            "forward-step counter of each is compared with M(N, min(s, N-1))"
            " (recurrence of Maddison 2024 re-implemented bottom-up) and "
            "with each other; non-trivial = N > s + 1 (recomputation needed)")
    ASSUMPTIONS = [
        "optimum = Maddison (2024) recurrence re-implemented in "
        "sim/oracles.py, validated for small sizes by exact search over "
        "executor strategies at setup; the lower bound itself is taken from "
        "the literature",
        "the tabulated planner is exercised as plain Python (numba absent)",
    ]

    SWEEP = {"quick": (320, 32), "thorough": (500, 64)}
    LARGE = {"quick": 0.0, "thorough": 0.12}
    MANY_UNITS = {"quick": 0.02, "thorough": 0.04}

    def plan(self, rng, tier, idx):
        nmax, _ = self.SIZES[tier]
        if idx == 0:
            from ..driver import ListDriver
            ops = [["sweep", "mixed_step_memoization", *self.SWEEP[tier]]]
            for n in (65537, 2 ** 27 + 3, 10 ** 9 + 7, 3 * 10 ** 12 + 1,
                      2 ** 62 + 1):
                ops.append(["call", "optimal_steps_mixed", n, 1])
                ops.append(["call", "mixed_step_memoization", n, 1])
            # many units: the band just below the diagonal
            ops += _band_calls(("optimal_steps_mixed",
                                "mixed_step_memoization"), tier)
            return ListDriver(ops)
        others, calls = _cotenants(rng, nmax)
        N = draw_N(rng, nmax, small=max(10, nmax // 6))
        s = draw_units(rng, N, 1 if N > 1 else 0)
        if rng.random() < 0.5:
            s = rng.randint(1, max(1, min(N, 8)))
        if rng.random() < self.LARGE[tier]:
            # large stratum: many steps, a moderate number of units
            N = rng.randint(100, 320)
            s = rng.randint(4, 28)
            others = []
        elif rng.random() < self.MANY_UNITS[tier]:
            # many steps and many units (beyond 255), just below the
            # diagonal so that some recomputation is still needed; the
            # co-tenants stay
            N = rng.randint(258, 340)
            s = N - rng.randint(2, 6)
            for _ in range(rng.randint(1, 3)):
                # the neighbouring step counts with few units, earlier in
                # the same process
                calls.insert(0, ["call", rng.choice((
                    "optimal_steps_mixed", "mixed_step_memoization")),
                    N + rng.choice((-1, 1, 1, 2)), rng.randint(1, 8)])
        a = ({"cls": "Mixed", "N": N, "p": {"s": s, "storage": "RAM"}}, 1,
             "every")
        b = ({"cls": "Mixed", "N": N, "p": {"s": s, "storage": "DISK"}}, 1,
             "every")
        pair = [a, b] if rng.random() < 0.5 else [b, a]
        slots = others[:1] + pair + others[1:]
        planner = rng.choice(("memo", "tabulated"))
        if planner == "tabulated" and N > 120:
            planner = "memo"
        calls.append(["call", "optimal_steps_mixed", N, max(s, 1)
                      if N > 1 else s])
        return Plan(slots, faults={"call": 0.3}, calls=calls,
                    knobs=[("planner", planner)],
                    interleave=rng.random() < 0.4)

    def check(self, w):
        got = {}
        for s in w.all_slots():
            if s.cls != "Mixed" or not _single_pass_done(s):
                continue
            units = s.cfg["p"]["s"]
            exp = O.mixed_total(s.N, max(units, 1)) if s.N > 1 else 1
            n = s.machine.fwd_steps
            if n > exp:
                self.own(w, "steps_above_optimum", s,
                         f"{n} forward steps executed, the mixed optimum for"
                         f" N={s.N}, s={units} is {exp} "
                         f"(planner {w.planner})")
            elif n < exp:
                self.own(w, "steps_below_optimum", s,
                         f"{n} forward steps executed, fewer than the mixed "
                         f"optimum {exp} for N={s.N}, s={units}")
            key = (s.N, units)
            if key in got and got[key][0] != n:
                self.own(w, "storage_dependent", s,
                         f"{n} forward steps with storage "
                         f"{s.cfg['p']['storage']} but {got[key][0]} with "
                         f"{got[key][1]}")
            got[key] = (n, s.cfg["p"]["storage"])
        nbad = 0
        for op, out in w.calls:
            if op[1] not in ("optimal_steps_mixed", "mixed_step_memoization"):
                continue
            n, sn = op[2], op[3]
            if n > 1 and sn < 1:
                continue
            exp = O.mixed_total(n, max(sn, 1)) if n > 1 else 1
            got = out
            if op[1] == "mixed_step_memoization" and out[0] == "val" and \
                    isinstance(out[1], list):
                got = ["val", out[1][2]]
            if got != ["val", exp]:
                nbad += 1
                if nbad > 3:
                    continue
                w.violation(self.ID, "planner_cost_not_optimal"
                            if op[1] == "mixed_step_memoization"
                            else "helper_mismatch", None,
                            f"{op[1]}({n}, {sn}) returned {out}, "
                            f"the optimum is {exp}")
                w.viol[-1]["cls"] = op[1]
        if w.planner == "tabulated":
            w.probe("tabulated_planner_ran")

    def nontrivial(self, w):
        return w.probes.get("helper_sweep_entries", 0) > 0 or any(
            s.cls == "Mixed" and s.N > s.cfg["p"]["s"] + 1
            and _single_pass_done(s) for s in w.all_slots())


# ---------------------------------------------------------------------------
# C07
# ---------------------------------------------------------------------------

class C07(Base):
    ID = "C07"
    TECHNIQUE = ('deterministic simulation: run-groups executed on the reference machine with a simulated cost clock; makespan compared with exact reference recurrences (validated by exact search) and group inequalities')
    EXPECTED_PROBES = ('hrevolve_used_disk', 'disk_checkpoint_reread', 'c07_inexact_costs', 'c07_rescaled_costs')
    BATCH = 4
    SIZES = {"quick": (48, 48), "thorough": (128, 128)}
    #: share of groups whose cost vector is not exact in binary floating point
    INEXACT = 0.15
    #: share of the other groups whose cost vector is rescaled by 2^k
    RESCALED = 0.1
    #: relative tolerance for those groups only
    TOL = Fraction(1, 10 ** 9)
    RULE = ("run-groups with equal (N, RAM units, cost vector): HRevolve for "
            "a sweep of disk unit counts, DiskRevolve, Revolve and "
            "PeriodicDiskRevolve, each drained on the machine; the simulated"
            " clock at EndReverse (uf per forward step, ub per reversed step,"
            " wd per DISK write, rd per DISK load, exact rationals) is "
            "compared with Opt_1(N-1,d)+N*uf / Opt_inf+N*uf / Opt_0+N*uf and "
            "the inequalities of the statement are checked inside the group; "
            "costs on the dyadic grid k/8, 80% with uf!=ub and wd!=rd; 15% of "
            "the groups use costs that are not exact in binary floating point "
            "(tenths, thirds, sevenths): there the comparison allows a "
            "relative 1e-9 (the library plans with the nearest doubles); 10% of"
            " the remaining groups have their cost vector multiplied by 2^k, k"
            " in {-40, -34, -20, 20, 30} (still exact: equality demanded); "
            "non-trivial = some HRevolve member of the group wrote to DISK "
            "or uf != ub")
    ASSUMPTIONS = [
        "optima = recurrences of Herrmann & Pallez 2020 (hierarchical), Aupy"
        " et al. 2016 (Disk-Revolve, read-once) and the memory-only "
        "recurrence, re-implemented with exact integer arithmetic; validated"
        " for small sizes by exact search at setup",
        "measured makespan = model value + N*uf (the N taped steps)",
        "(wd+rd)/uf <= 64; for cost vectors on the grid k/8 the library's "
        "float tables are exact and equality is demanded; for the others a "
        "relative tolerance of 1e-9 (floating-point planning error is below "
        "1e-12 at these sizes)",
    ]

    def plan(self, rng, tier, idx):
        nmax, _ = self.SIZES[tier]
        N = draw_N(rng, nmax, small=max(10, nmax // 6))
        s = rng.choice((1, 1, 1, 2, 2, 3, 4, 5, 6))
        costs = draw_costs(rng, default_p=0.05)
        if rng.random() < self.INEXACT:
            costs = draw_costs_inexact(rng)
        elif rng.random() < self.RESCALED:
            # the whole vector times a power of two: exact in binary floating
            # point, so the streams must not change and the optimum scales
            k = rng.choice((-40, -34, -20, 20, 30))
            f = Fraction(2) ** k
            costs = {c: str(Fraction(v) * f) for c, v in costs.items()}
        dmax = rng.choice((1, 2, 3, 4, 6))
        ds = sorted({0, 1, dmax, rng.randint(0, dmax), rng.randint(0, dmax)})
        slots = [({"cls": "HRevolve", "N": N, "p": dict(costs, s=s, d=d)}, 1,
                  "every") for d in ds]
        for c in ("DiskRevolve", "Revolve", "PeriodicDiskRevolve"):
            slots.append(({"cls": c, "N": N, "p": dict(costs, s=s)}, 1,
                          "every"))
        for cfg, _, _ in slots:
            # calling forms: costs positionally / everything by keyword /
            # numpy integers; integral costs as Python ints
            if rng.random() < 0.1:
                cfg["p"]["call"] = rng.choice(("pos", "pos", "kw", "np",
                                               "nppos"))
            u = rng.random()
            if u < 0.25:
                cfg["p"]["costs_int"] = True
            elif u < 0.37:
                cfg["p"]["costs_form"] = "np" if u < 0.33 else "frac"
        return Plan(slots)

    def check(self, w):
        cost = {}
        for s in w.all_slots():
            if not _single_pass_done(s):
                continue
            m = s.machine
            got = m.clock
            exp = O.expected_cost(s.cls, s.N, s.cfg["p"])
            p = s.cfg["p"]
            tag = f"N={s.N} s={p['s']}" + (f" d={p['d']}" if "d" in p else "") \
                + f" uf={p['uf']} ub={p['ub']} wd={p['wd']} rd={p['rd']}"
            tol = 0 if O.costs_exact_in_binary(p) else self.TOL
            if tol:
                w.probe("c07_inexact_costs")
            elif O.cost_scale(p) > 8:
                w.probe("c07_rescaled_costs")
            if exp is not None:
                if got > exp * (1 + tol):
                    self.own(w, f"cost_above_optimum:{s.cls}", s,
                             f"cost {got} ({m.fwd_steps} fwd, {m.rev_steps} "
                             f"rev, {m.disk_writes} disk writes, "
                             f"{m.disk_reads} disk reads) above the optimum "
                             f"{exp} for {tag}", site="uf!=ub" if
                             p["uf"] != p["ub"] else "uf==ub")
                elif got < exp:
                    self.own(w, f"cost_below_optimum:{s.cls}", s,
                             f"cost {got} below the reference optimum {exp} "
                             f"for {tag}")
            grp = (s.N, p["s"], p["uf"], p["ub"], p["wd"], p["rd"])
            cost[(grp, s.cls, p.get("d"))] = (got, s, tol)
            if s.cls == "HRevolve" and (m.disk_writes or p["uf"] != p["ub"]):
                w.probe("c07_nontrivial_member")
            if s.cls == "HRevolve" and m.disk_writes:
                w.probe("hrevolve_used_disk")
            if m.reread_disk:
                w.probe("disk_checkpoint_reread")
        # inequalities only between members with equal (N, s, costs)
        for grp in sorted({k[0] for k in cost}):
            hs = sorted((k[2], v) for k, v in cost.items()
                        if k[0] == grp and k[1] == "HRevolve")
            for (d1, (c1, s1, tol)), (d2, (c2, s2, _)) in zip(hs, hs[1:]):
                if c2 > c1 * (1 + tol):
                    self.own(w, "monotone_d", s2,
                             f"cost(HRevolve, d={d2}) = {c2} > "
                             f"cost(HRevolve, d={d1}) = {c1} for N={grp[0]} "
                             f"s={grp[1]} costs={grp[2:]}")
            dr = cost.get((grp, "DiskRevolve", None))
            rv = cost.get((grp, "Revolve", None))
            pd = cost.get((grp, "PeriodicDiskRevolve", None))
            if dr and rv and dr[0] > rv[0] * (1 + dr[2]):
                self.own(w, "disk_vs_revolve", dr[1],
                         f"cost(DiskRevolve) = {dr[0]} > cost(Revolve) = "
                         f"{rv[0]} for N={grp[0]} s={grp[1]} "
                         f"costs={grp[2:]}")
            if dr and pd and pd[0] * (1 + dr[2]) < dr[0]:
                self.own(w, "periodic_vs_disk", pd[1],
                         f"cost(PeriodicDiskRevolve) = {pd[0]} < "
                         f"cost(DiskRevolve) = {dr[0]} for N={grp[0]} "
                         f"s={grp[1]} costs={grp[2:]}")

    def nontrivial(self, w):
        return w.probes.get("c07_nontrivial_member", 0) > 0


def _cost_units(p):
    """(uf, ub, wd, rd) as exact integers in units of the vector's common
    denominator (ratios are what the period formula needs)."""
    scale = O.cost_scale(p)
    return tuple(int(Fraction(p[k]) * scale)
                 for k in ("uf", "ub", "wd", "rd"))


# ---------------------------------------------------------------------------
# C13
# ---------------------------------------------------------------------------

class C13(Base):
    ID = "C13"
    TECHNIQUE = ('deterministic simulation: seeded TwoLevel histories (on-time and late finalisation, 1-3 passes) on the reference machine; forward phase and per-block step counts compared with reference models')
    EXPECTED_PROBES = ('twolevel_partial_last_block', 'twolevel_two_binomial_checkpoints', 'second_pass_runs')
    SIZES = {"quick": (80, 0), "thorough": (400, 0)}
    WORLD_KW = {"keep_log": True}
    RULE = ("one TwoLevel schedule per run: period 1..N+2 (biased so that N "
            "= 0, +-1 mod period), binomial_snapshots 0..5 and beyond the "
            "period, both storages, both trajectories, 1-3 passes, on-time "
            "finalisation; forward phase compared action by action with the "
            "expected Forward(k*period,(k+1)*period,True,False,DISK); in "
            "every pass the forward steps spent inside each period block of "
            "length L are compared with L + GW(L, binomial_snapshots+1); "
            "extra checkpoints must name the binomial storage and a block's "
            "disk checkpoint must only ever be Copy-ed; non-trivial = some "
            "block has L >= 3 and fewer than L-1 units")
    ASSUMPTIONS = C05.ASSUMPTIONS

    def plan(self, rng, tier, idx):
        from ..driver import draw_cfg
        nmax, _ = self.SIZES[tier]
        cfg = draw_cfg(rng, "TwoLevel", nmax)
        if rng.random() < 0.5:
            # blocks long enough for the binomial part to matter
            cfg["p"]["period"] = rng.randint(3, max(3, min(cfg["N"] + 2, 40)))
            cfg["p"]["b"] = rng.choice((0, 1, 1, 2, 2, 3, 4, 5))
        style = "every" if rng.random() < 0.7 else "first"
        if rng.random() < 0.3:
            style += "+for"
        faults = {}
        if rng.random() < 0.15:
            # late finalisation: the periodic forward goes on until an
            # injected finalize(k) is accepted
            style = "manual"
            faults = {"fin": 0.3}
        return Plan([(cfg, rng.choice((1, 1, 2, 3)), style)], faults=faults)

    def check(self, w):
        for s in w.all_slots():
            if s.cls != "TwoLevel" or s.how not in ("enough", "stop"):
                continue
            p = s.cfg["p"]
            per, b, bst, N = p["period"], p["b"], p["storage"], s.N
            nblocks = -(-N // per)
            nfwd = next((i for i, t in enumerate(s.stream)
                         if t[0] != "Forward"), len(s.stream))
            if s.style == "manual":
                w.probe("c13_late_finalised")
                # however many periodic Forwards were requested before the
                # accepted finalize, they must be the periodic ones
                nfwd = max(nfwd, nblocks)
            else:
                nfwd = nblocks
            exp_fwd = [("Forward", k * per, (k + 1) * per, True, False,
                        "DISK") for k in range(nfwd)] + [("EndForward",)]
            got_fwd = s.stream[:len(exp_fwd)]
            if got_fwd != exp_fwd:
                j = next((i for i, (x, y) in enumerate(zip(got_fwd, exp_fwd))
                          if x != y), min(len(got_fwd), len(exp_fwd)))
                self.own(w, "forward_phase", s,
                         f"forward phase action {j} is "
                         f"{got_fwd[j] if j < len(got_fwd) else None}, "
                         f"expected {exp_fwd[j]}")
                continue
            steps = {}
            for (a, phase, adj, pno, fwd) in s.machine.log:
                if phase != "REV":
                    continue
                if a[0] == "Forward":
                    n0, n1 = a[1], min(a[2], N)
                    k = n0 // per
                    steps[(pno, k)] = steps.get((pno, k), 0) + (n1 - n0)
                    if a[3] and a[5] != bst:
                        self.own(w, "wrong_binomial_storage", s,
                                 f"{a!r} but binomial_storage is {bst}")
                    if a[5] == "DISK" and bst == "RAM":
                        self.own(w, "wrong_binomial_storage", s,
                                 f"{a!r} writes to DISK in the reverse phase "
                                 "with RAM binomial storage")
                elif a[0] == "Move" and a[1] % per == 0 and a[2] == "DISK":
                    if bst == "RAM" or a[1] not in s.machine.store.get(
                            "DISK", {}):
                        pass
                    if a[1] // per < nblocks:
                        # a Move of the period checkpoint itself
                        self.own(w, "period_checkpoint_moved", s,
                                 f"{a!r} removes the disk checkpoint of "
                                 f"block {a[1] // per}")
            for pno in range(s.machine.passes):
                for k in range(nblocks):
                    L = min((k + 1) * per, N) - k * per
                    exp = O.binomial_total(L, b + 1) if L > 1 else 1
                    got = steps.get((pno, k), 0)
                    if got > exp:
                        self.own(w, "block_steps_above", s,
                                 f"pass {pno + 1}, block {k} (length {L}): "
                                 f"{got} forward steps, binomial optimum "
                                 f"with {b + 1} units is {exp}")
                    elif got < exp:
                        self.own(w, "block_steps_below", s,
                                 f"pass {pno + 1}, block {k} (length {L}): "
                                 f"{got} forward steps, fewer than the "
                                 f"binomial optimum {exp}")
            if N % per:
                w.probe("twolevel_partial_last_block")
            if s.machine.peak_ram >= 2 or (bst == "DISK" and
                                           s.machine.peak_disk
                                           >= nblocks + 2):
                w.probe("twolevel_two_binomial_checkpoints")

    def nontrivial(self, w):
        for s in w.all_slots():
            if s.cls == "TwoLevel":
                p = s.cfg["p"]
                L = min(p["period"], s.N)
                if L >= 3 and p["b"] + 1 < L - 1 and s.machine.passes:
                    return True
        return False


# ---------------------------------------------------------------------------
# C14
# ---------------------------------------------------------------------------

def stack_positions(stream):
    """Reconstruct the checkpoint stack from a Multistage stream.  Returns
    (labels per position as sets, accesses per position, erased stream)."""
    depth = 0
    labels, acc, erased = {}, {}, []
    for t in stream:
        if t[0] == "Forward" and t[3]:
            pos = depth
            depth += 1
            labels.setdefault(pos, set()).add(t[5])
            acc[pos] = acc.get(pos, 0) + 1
            erased.append(t[:5] + ("*",))
        elif t[0] in ("Copy", "Move") and t[3] == "WORK":
            pos = depth - 1
            labels.setdefault(pos, set()).add(t[2])
            acc[pos] = acc.get(pos, 0) + 1
            if t[0] == "Move":
                depth -= 1
            erased.append((t[0], t[1], "*", t[3]))
        else:
            erased.append(t)
    return labels, acc, erased


class C14(Base):
    ID = "C14"
    TECHNIQUE = ('deterministic simulation: sibling-configuration worlds (all RAM/DISK splits, both trajectories) on the reference machine; label-erased streams, stack positions and disk traffic compared')
    EXPECTED_PROBES = ('c14_allocation_matters',)
    BATCH = 8
    SIZES = {"quick": (48, 0), "thorough": (200, 0)}
    SMAX = {"quick": 10, "thorough": 24}
    LARGE = {"quick": 0.03, "thorough": 0.05}
    RULE = ("run-groups: fixed (N, trajectory, total units s, s up to N+2 so "
            "that clamping is exercised), one Multistage schedule for every "
            "split r = 0..s, d = s - r (plus over-declared splits), each "
            "drained on the machine; streams must be equal after erasing the "
            "RAM/DISK labels, every stack position must keep one label, at "
            "most r positions may be labelled RAM, and the DISK accesses "
            "(writes + loads, counted by the machine) must equal the sum of "
            "the (P - min(r,P)) smallest per-position access counts; "
            "non-trivial = a group with r >= 1, d >= 1 and at least 3 stack "
            "positions in use with unequal access counts")
    ASSUMPTIONS = [
        "'that many' stack positions = the declared RAM unit count (min(r, "
        "positions in use))",
        "accesses of a position = checkpoint writes + loads (Copy and Move)",
    ]

    def plan(self, rng, tier, idx):
        nmax, _ = self.SIZES[tier]
        N = draw_N(rng, nmax, small=max(10, nmax // 6))
        s = rng.randint(1, self.SMAX[tier])
        if rng.random() < 0.3:
            s = max(1, rng.choice((N - 2, N - 1, N, N + 2)))
            s = min(s, self.SMAX[tier] + 6)
        trajs = [rng.choice(("maximum", "revolve"))]
        if rng.random() < self.LARGE[tier]:
            # large stratum: many steps and many units, a sample of splits
            N = rng.randint(257, 700)
            s = rng.randint(21, 40)
            traj = trajs[0]
            rs = sorted({0, s, rng.randint(1, s - 1), rng.randint(1, s - 1),
                         rng.randint(1, s - 1), s // 2})
            return Plan([({"cls": "Multistage", "N": N,
                           "p": {"r": r, "d": s - r, "traj": traj}}, 1,
                          "every") for r in rs])
        if rng.random() < 0.5:
            # both trajectories in one world (the checker groups by
            # trajectory); construction order shuffled
            trajs = ["maximum", "revolve"]
        slots = []
        for traj in trajs:
            for r in range(0, s + 1):
                slots.append(({"cls": "Multistage", "N": N,
                               "p": {"r": r, "d": s - r, "traj": traj}}, 1,
                              "every"))
        if len(trajs) == 2:
            rng.shuffle(slots)
        return Plan(slots, interleave=len(trajs) == 2 and rng.random() < 0.5)

    def check(self, w):
        refs = {}
        for s in w.all_slots():
            if s.cls != "Multistage" or not _single_pass_done(s):
                continue
            p = s.cfg["p"]
            r, d = p["r"], p["d"]
            labels, acc, erased = stack_positions(s.stream)
            # siblings = equal N, trajectory and (clamped) total unit count
            grp = (s.N, p["traj"], min(r + d, s.N - 1))
            ref = refs.get(grp)
            if ref is None:
                refs[grp] = (erased, s)
            elif erased != ref[0]:
                j = next((i for i, (x, y) in enumerate(zip(erased, ref[0]))
                          if x != y), min(len(erased), len(ref[0])))
                self.own(w, "split_changes_stream", s,
                         f"with r={r}, d={d} action {j} is "
                         f"{erased[j] if j < len(erased) else None} but with"
                         f" r={ref[1].cfg['p']['r']}, "
                         f"d={ref[1].cfg['p']['d']} it is "
                         f"{ref[0][j] if j < len(ref[0]) else None}")
            multi = {k: v for k, v in labels.items() if len(v) > 1}
            if multi:
                self.own(w, "position_relabelled", s,
                         f"stack positions {sorted(multi)} change storage "
                         f"during the run (r={r}, d={d})")
                continue
            P = len(labels)
            nram = sum(1 for v in labels.values() if v == {"RAM"})
            if nram > r:
                self.own(w, "ram_over_declared", s,
                         f"{nram} stack positions labelled RAM, {r} declared")
            counts = sorted(acc.get(i, 0) for i in range(P))
            keep = min(r, P)
            best = sum(counts[:P - keep])
            got = s.machine.disk_writes + s.machine.disk_reads
            if got != best:
                self.own(w, "disk_traffic_not_minimal", s,
                         f"{got} DISK accesses with r={r}, d={d}; giving the "
                         f"{keep} busiest of {P} positions to RAM needs "
                         f"{best} (accesses per position "
                         f"{[acc.get(i, 0) for i in range(P)]})")
            if r >= 1 and d >= 1 and P >= 3 and len(set(counts)) > 1:
                w.probe("c14_allocation_matters")
                w.probe("allocate_snapshots_both_storages")

    def nontrivial(self, w):
        return w.probes.get("c14_allocation_matters", 0) > 0


# ---------------------------------------------------------------------------
# C16
# ---------------------------------------------------------------------------

class C16(Base):
    ID = "C16"
    TECHNIQUE = ('deterministic simulation with a configuration knob: paired runs on the memoised and the tabulated planner path in one fresh process; streams, machine summaries and table rows compared')
    EXPECTED_PROBES = ('tabulated_planner_ran', 'c16_table_rows')
    FORK_PER_RUN = True
    SIZES = {"quick": (60, 0), "thorough": (200, 0)}
    TABLE = {"quick": 40, "thorough": 90}
    RULE = ("paired runs in one fresh process: the same Mixed configuration "
            "drained once with the memoised planner (numba absent) and once "
            "with the tabulated planner forced (module switch flipped, table "
            "built by the fallback njit as plain Python), order drawn per "
            "run; streams compared by value, machine summaries compared, and "
            "every table row (n_i <= N, 1 <= s_i <= min(s, n_i-1)) compared "
            "with the memoised triple (kind, length, cost); non-trivial = N "
            "> s + 1 and both streams completed")
    ASSUMPTIONS = [
        "real numba semantics (int64 overflow, typed tuples, JIT "
        "compilation) are not exercised: numba is not installed and cannot "
        "be; the tabulated planner runs as plain Python",
    ]

    LONG = {"quick": 0.05, "thorough": 0.05}

    def plan(self, rng, tier, idx):
        nmax, _ = self.SIZES[tier]
        if idx == 0:
            # the one-unit column is O(n) on both paths: very long tables
            # (costs beyond 2^31 from n = 65536, beyond 2^32 from 92682)
            from ..driver import ListDriver
            ops = [["table", 65539, 1], ["table", 92700, 1]]
            if tier == "thorough":
                ops.append(["table", 400001, 1])
            return ListDriver(ops)
        if idx == 1 and tier == "thorough":
            # and one stream pair of that size (about 15 s)
            cfg = {"cls": "Mixed", "N": 65537 + rng.randint(0, 40),
                   "p": {"s": 1, "storage": rng.choice(("RAM", "DISK"))}}
            return C16Driver(cfg, "memo", "tabulated", table=None)
        N = draw_N(rng, nmax, small=max(10, nmax // 6))
        s = draw_units(rng, N, 1 if N > 1 else 0)
        if rng.random() < 0.5:
            s = rng.randint(1, max(1, min(N, 8)))
        if rng.random() < self.LONG[tier]:
            # step indices beyond 64 / 128 with few units (about 1 s on the
            # un-jitted tabulated path)
            N = rng.randint(66, 140)
            s = rng.randint(1, 4)
        st = rng.choice(("RAM", "DISK"))
        cfg = {"cls": "Mixed", "N": N, "p": {"s": s, "storage": st}}
        first = rng.choice(("memo", "tabulated"))
        second = "tabulated" if first == "memo" else "memo"
        return C16Driver(cfg, first, second,
                         table=(min(N, self.TABLE[tier]), s)
                         if rng.random() < 0.5 else None)

    def check(self, w):
        slots = {s.sid: s for s in w.all_slots()}
        a, b = slots.get(0), slots.get(1)
        if a is not None and b is not None and a.cfg == b.cfg \
                and a.how is not None and b.how is not None:
            if a.stream != b.stream or a.how != b.how:
                j = next((i for i, (x, y) in
                          enumerate(zip(a.stream, b.stream)) if x != y),
                         min(len(a.stream), len(b.stream)))
                self.own(w, "stream_differs", a,
                         f"planner paths disagree at action {j}: "
                         f"{a.stream[j] if j < len(a.stream) else None} vs "
                         f"{b.stream[j] if j < len(b.stream) else None} "
                         f"(ended {a.how}/{b.how})")
            elif a.machine.summary() != b.machine.summary():
                self.own(w, "stream_differs", a,
                         "machine histories differ between planner paths")
            w.probe("tabulated_planner_ran")
        for op, out in w.calls:
            if op[0] != "table":
                continue
            if out[0] == "raise":
                w.violation(self.ID, "table_differs", None,
                            f"mixed_steps_tabulation({op[1]}, {op[2]}) "
                            f"raised {out[1]}: {out[2]}")
                w.viol[-1]["cls"] = "mixed_steps_tabulation"
            elif out[2] is not None:
                n_i, s_i, ta, me = out[2]
                w.violation(self.ID, "table_differs", None,
                            f"table[{n_i},{s_i}] = {ta} but the memoised "
                            f"planner gives {me}")
                w.viol[-1]["cls"] = "mixed_steps_tabulation"
            else:
                w.probe("c16_table_rows", out[1])

    def nontrivial(self, w):
        slots = {s.sid: s for s in w.all_slots()}
        a, b = slots.get(0), slots.get(1)
        return bool(a and b and a.N > a.cfg["p"]["s"] + 1
                    and _single_pass_done(a) and _single_pass_done(b))


class C16Driver:
    def __init__(self, cfg, first, second, table):
        self.q = [["knob", "planner", first], ["new", 0, cfg, 1, "every"],
                  ["drain", 0], ["over", 0],
                  ["knob", "planner", second], ["new", 1, cfg, 1, "every"],
                  ["drain", 1], ["over", 1], ["knob", "planner", "memo"]]
        if table and table[0] >= 2 and table[1] >= 1:
            self.q.append(["table", table[0], table[1]])

    def next_op(self, w):
        return self.q.pop(0) if self.q else None


# ---------------------------------------------------------------------------
# C19
# ---------------------------------------------------------------------------

class C19(Base):
    ID = "C19"
    TECHNIQUE = ('deterministic simulation: run-groups of PeriodicDiskRevolve over many N executed on the reference machine; disk write/read positions and per-segment step counts compared with the exact closed form and the Revolve optimum')
    EXPECTED_PROBES = ('c19_two_disk_checkpoints',)
    BATCH = 4
    SIZES = {"quick": (64, 64), "thorough": (160, 160)}
    CMAX = {"quick": 4, "thorough": 6}
    WORLD_KW = {"keep_log": True}
    RULE = ("run-groups: fixed (RAM units c, cost vector), PeriodicDisk"
            "Revolve for several N (seeded, incl. N-1 = multiples of the "
            "period +-1) so that one period m must show for every N; on the "
            "executed trace: DISK writes only in the forward sweep, exactly "
            "at 0, m, ..., (q-1)m with m the closed form of Aupy & Herrmann "
            "(2017) computed exactly, no DISK write in the reverse phase, "
            "every DISK checkpoint loaded exactly once, every segment "
            "reversed with L + GW(L, c) forward steps; 12% of the groups use "
            "costs that are not exact in binary floating point, with "
            "(wd+rd)/uf at least 1e-6 away from every integer so that the "
            "closed form gives the same period for the rationals and for the "
            "nearest doubles; non-trivial = a group "
            "member with at least two DISK checkpoints")
    ASSUMPTIONS = [
        "m = beta(c, t), t least with beta(c+1, t) > (wd+rd)/uf; cross-"
        "checked at setup against the largest minimiser of the asymptotic "
        "cost per step",
        "'more than m steps remain' is read on the N-1 forward steps of the "
        "adjoint graph as the paper and the code do; counting N steps is "
        "accepted as well exactly where the two readings differ ((N-1) a "
        "multiple of m)",
        "segment optimum = memory-only Revolve optimum with c units",
    ]

    def plan(self, rng, tier, idx):
        nmax, _ = self.SIZES[tier]
        c = rng.randint(1, self.CMAX[tier])
        while True:
            costs = draw_costs(rng, default_p=0.1)
            if rng.random() < 0.12:
                # costs not exact in binary floating point, kept away from
                # the thresholds of the closed form ((wd+rd)/uf not within
                # 1e-6 of an integer), so that the period is the same for the
                # exact rationals and for the nearest doubles
                costs = draw_costs_inexact(rng)
                ratio = (Fraction(costs["wd"]) + Fraction(costs["rd"])) \
                    / Fraction(costs["uf"])
                if abs(ratio - round(ratio)) < Fraction(1, 10 ** 6):
                    continue
            m = O.period_closed_form(c, *_cost_units(costs))
            if m <= nmax:
                break
        Ns = set()
        for _ in range(rng.randint(4, 8)):
            u = rng.random()
            if u < 0.5:
                k = rng.randint(1, max(1, nmax // m))
                Ns.add(k * m + 1 + rng.choice((-1, 0, 0, 1, 2)))
            else:
                Ns.add(rng.randint(1, nmax))
        Ns = sorted(n for n in Ns if 1 <= n <= nmax + 2)
        slots = [({"cls": "PeriodicDiskRevolve", "N": n,
                   "p": dict(costs, s=c)}, 1, "every") for n in Ns]
        return Plan(slots)

    def check(self, w):
        seen_m = {}
        for s in w.all_slots():
            if s.cls != "PeriodicDiskRevolve" or not _single_pass_done(s):
                continue
            p = s.cfg["p"]
            c, N = p["s"], s.N
            m = O.period_closed_form(c, *_cost_units(p))
            if not O.costs_exact_in_binary(p):
                w.probe("c19_inexact_costs")
            writes_fwd, writes_rev, loads = [], [], {}
            for (a, phase, adj, pno, fwd) in s.machine.log:
                if a[0] == "Forward" and a[5] == "DISK":
                    (writes_fwd if phase == "FWD" else writes_rev).append(
                        a[1])
                elif a[0] in ("Copy", "Move"):
                    if a[3] == "DISK":
                        writes_rev.append(a[1])
                    if a[2] == "DISK":
                        loads[a[1]] = loads.get(a[1], 0) + 1
            if writes_rev:
                self.own(w, "disk_write_in_reverse", s,
                         f"DISK written after the forward sweep at steps "
                         f"{writes_rev[:4]} (N={N}, c={c})")
            q1 = len([k for k in range(N) if (N - 1) - k * m > m])
            q2 = len([k for k in range(N) if N - k * m > m])
            ok = [[k * m for k in range(q1)]]
            if (N - 1) % m == 0 and q2 != q1:
                ok.append([k * m for k in range(q2)])
            if writes_fwd not in ok:
                self.own(w, "period_wrong", s,
                         f"DISK checkpoints written at {writes_fwd[:8]}, "
                         f"expected {ok[0][:8]} (period {m}) for N={N}, "
                         f"c={c}, uf={p['uf']} wd={p['wd']} rd={p['rd']}")
            if len(writes_fwd) >= 2:
                obs = writes_fwd[1] - writes_fwd[0]
                seen_m.setdefault((c, p["uf"], p["wd"], p["rd"]), {})[N] = obs
                w.probe("c19_two_disk_checkpoints")
            for k in writes_fwd:
                if loads.get(k, 0) != 1:
                    self.own(w, "disk_read_count", s,
                             f"DISK checkpoint {k} loaded "
                             f"{loads.get(k, 0)} times (N={N}, c={c})")
            # per-segment recomputation
            starts = list(writes_fwd)
            last_start = (starts[-1] + m) if starts else 0
            if writes_fwd in ok:
                seg_steps = {}
                active = {last_start}       # segments (re)started so far
                for (a, phase, adj, pno, fwd) in s.machine.log:
                    if a[0] in ("Copy", "Move") and a[2] == "DISK":
                        active.add(a[1])
                    elif a[0] == "Forward":
                        n0, n1 = a[1], min(a[2], N)
                        seg = max([x for x in starts + [last_start]
                                   if x <= n0])
                        if seg in active and (seg != last_start
                                              or n0 >= last_start):
                            seg_steps[seg] = seg_steps.get(seg, 0) + n1 - n0
                bounds = starts + [last_start, N]
                for i, a0 in enumerate(starts + [last_start]):
                    L = bounds[i + 1] - a0
                    if L <= 0:
                        continue
                    exp = O.binomial_total(L, c) if L > 1 else 1
                    got = seg_steps.get(a0, 0)
                    if got != exp:
                        self.own(w, "segment_not_optimal", s,
                                 f"segment [{a0},{a0 + L}) reversed with "
                                 f"{got} forward steps, the Revolve optimum "
                                 f"with {c} units is {exp} (N={N})")
        for grp, per_n in seen_m.items():
            if len(set(per_n.values())) > 1:
                s = w.all_slots()[0]
                self.own(w, "period_depends_on_n", s,
                         f"observed periods per N for c={grp[0]}, "
                         f"uf={grp[1]} wd={grp[2]} rd={grp[3]}: {per_n}")

    def nontrivial(self, w):
        return w.probes.get("c19_two_disk_checkpoints", 0) > 0
