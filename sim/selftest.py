"""Harness self-tests (DESIGN.md sections 5.6, 7.1, 7.2(a)); run by setup.sh.

    python -m sim.selftest oracles | machine | determinism | search | all

Exit 0 when everything agrees, 2 otherwise.  Nothing here is a property
check; these tests validate the oracles and the simulator themselves.
"""

import os
import subprocess
import sys
import time
from fractions import Fraction

from . import oracles as O
from .machine import Machine

ROOT = os.path.dirname(os.path.dirname(os.path.abspath(__file__)))


_NFAIL = [0]


def fail(msg):
    _NFAIL[0] += 1
    if _NFAIL[0] <= 12:
        print("SELFTEST-FAIL", msg)
    return 1


# ---------------------------------------------------------------------------
def test_oracles():
    bad = 0
    n = 0
    for N in range(1, 41):
        for s in range(1, 9):
            n += 1
            if O.gw_extra(N, s) != O.gw_extra_recurrence(N, s):
                bad += fail(f"GW closed form vs recurrence at n={N}, s={s}")
    # mixed: boundary identities
    for N in range(1, 60):
        if O.mixed_total(N, max(N - 1, 1)) != N:
            bad += fail(f"M({N}, {N - 1}) != {N}")
        if N >= 3 and O.mixed_total(N, 1) != N * (N + 1) // 2 - 1:
            bad += fail(f"M({N}, 1)")
        for s in range(1, 6):
            # a mixed unit can always be used as a restart checkpoint only:
            # one taped step per reversed step plus the binomial extra steps
            if N > 1 and O.mixed_total(N, s) > O.binomial_total(N, s):
                bad += fail(f"M({N},{s}) above the binomial total")
            if N > 1 and s > 1 and O.mixed_total(N, s) > \
                    O.mixed_total(N, s - 1):
                bad += fail(f"M({N},{s}) not monotone in s")
    # Opt0 with uf = ub = 1 counts steps: l+1 reversed + GW(l+1, c) forward
    for l in range(0, 40):
        for c in range(1, 6):
            want = (l + 1) + O.gw_extra(l + 1, c)
            got = O.opt0(l, c, 1, 1)
            if got != want:
                bad += fail(f"Opt0({l},{c}) = {got}, GW-based {want}")
    # hierarchical with no disk = memory only; disk-revolve <= memory only
    grid = [(8, 8, 16, 16), (16, 4, 4, 24), (4, 24, 40, 1), (8, 8, 0, 0),
            (24, 8, 1, 64)]
    for (uf, ub, wd, rd) in grid:
        for c in (1, 2, 3):
            for l in range(0, 30):
                a = O.hopt(l, c, 0, uf, ub, wd, rd)
                b = O.opt0(l, c, uf, ub)
                if a != b:
                    bad += fail(f"Opt_1(l={l}, d=0) = {a} != Opt0 = {b}")
                if O.optinf(l, c, uf, ub, wd, rd) > b:
                    bad += fail("Opt_inf above Opt0")
                prev = None
                for d in range(0, 5):
                    v = O.hopt(l, c, d, uf, ub, wd, rd)
                    if prev is not None and v > prev:
                        bad += fail("Opt_1 not monotone in d")
                    prev = v
                # unbounded disk, read-once is a restriction of the
                # hierarchical problem with l disk units
                if O.hopt(l, c, max(l, 1), uf, ub, wd, rd) > \
                        O.optinf(l, c, uf, ub, wd, rd):
                    bad += fail(f"Opt_1 with {l} disk units above Opt_inf "
                                f"(l={l}, c={c}, costs={uf, ub, wd, rd})")
    # period: closed form = largest minimiser of the cost per step
    pairs = 0
    for c in (1, 2, 3, 4):
        for (uf, wd, rd) in ((8, 16, 16), (8, 8, 40), (4, 24, 1), (16, 1, 0),
                             (8, 64, 64), (2, 16, 16), (8, 0, 0), (12, 5, 9),
                             (8, 128, 8), (1, 8, 8), (24, 40, 40)):
            if (wd + rd) / uf > 64:
                continue
            pairs += 1
            a = O.period_closed_form(c, uf, 8, wd, rd)
            b = O.period_first_principles(c, uf, 8, wd, rd)
            if a != b:
                bad += fail(f"period closed form {a} vs first principles {b}"
                            f" for c={c}, uf={uf}, wd={wd}, rd={rd}")
    print(f"oracles: {n} GW pairs, {pairs} period pairs, "
          f"{'OK' if not bad else str(bad) + ' FAILED'}")
    return bad


# ---------------------------------------------------------------------------
T, F = True, False
GOOD = [
    ("Forward", 0, 2, T, F, "DISK"), ("Forward", 2, 3, F, T, "WORK"),
    ("EndForward",), ("Reverse", 3, 2, T),
    ("Copy", 0, "DISK", "WORK"), ("Forward", 0, 1, F, F, "WORK"),
    ("Forward", 1, 2, F, T, "WORK"), ("Reverse", 2, 1, T),
    ("Move", 0, "DISK", "WORK"), ("Forward", 0, 1, F, T, "WORK"),
    ("Reverse", 1, 0, T), ("EndReverse",),
]


def _run(stream, cls="Multistage", p=None, N=3, drop_write=False,
         wrong_key=False, keep_deps=False):
    m = Machine(cls, p or {"r": 0, "d": 1, "traj": "maximum"}, N)
    for a in stream:
        m.apply(a, True)
        if drop_write and a[0] == "Forward" and a[5] in ("RAM", "DISK"):
            m.store[a[5]].pop(a[1], None)           # lost checkpoint write
        if wrong_key and a[0] == "Forward" and a[5] in ("RAM", "DISK"):
            v = m.store[a[5]].pop(a[1])
            m.store[a[5]][a[1] + 1] = v             # stored under wrong key
        if keep_deps and a[0] == "Reverse":
            m.deps.update(range(a[2], a[1]))        # deps not cleared
    return m


def _tags(m):
    return {(v["prop"], v["kind"]) for v in m.viol}


def test_machine():
    bad = 0
    m = _run(GOOD)
    if m.viol:
        bad += fail(f"good stream flagged: {m.viol}")
    if m.fwd_steps != 3 + O.gw_extra(3, 1) or m.end_stores != [((), ())]:
        bad += fail("good stream: counters / end store wrong")
    if m.clock != Fraction(6 + 3 + 2 + 4):
        bad += fail(f"good stream: clock {m.clock}")

    def edit(i, new=None, drop=False, insert=None):
        s = list(GOOD)
        if drop:
            del s[i]
        elif insert is not None:
            s.insert(i, insert)
        else:
            s[i] = new
        return s
    cases = [
        ("no checkpoint written", edit(0, ("Forward", 0, 2, F, F, "WORK")),
         ("C01", "missing_checkpoint")),
        ("forward starts elsewhere", edit(5, ("Forward", 1, 2, F, F,
                                              "WORK")),
         ("C01", "fwd_start")),
        ("reverse without deps", edit(6, drop=True), ("C01", "missing_deps")),
        ("checkpoint overwritten", edit(5, ("Forward", 0, 1, T, F, "DISK")),
         ("C01", "overwrite")),
        ("checkpoint does not cover", [("Forward", 0, 1, T, F, "DISK"),
                                       ("Forward", 1, 2, F, F, "WORK")]
         + GOOD[1:], ("C01", "not_covering")),
        ("endreverse early", GOOD[:8] + [("EndReverse",)],
         ("C02", "early_endreverse")),
        ("reverse skips a step", edit(7, ("Reverse", 1, 0, T)),
         ("C02", "reverse_gap")),
        ("copy before endforward", edit(1, insert=("Copy", 0, "DISK",
                                                   "WORK")),
         ("C02", "phase")),
        ("action after step 0", GOOD[:11] + [("Forward", 0, 1, F, F, "WORK"),
                                             ("EndReverse",)],
         ("C02", "late_endreverse")),
        ("deps kept, then load", edit(3, ("Reverse", 3, 2, F)),
         ("C12", "load_over_data")),
        ("overshoot", edit(5, ("Forward", 0, 3, F, F, "WORK")),
         ("C12", "overshoot")),
        ("deps of the wrong step", edit(5, ("Forward", 0, 1, F, T, "WORK")),
         ("C12", "deps_wrong_step")),
        ("two steps of deps", edit(5, ("Forward", 0, 1, F, T, "WORK")),
         ("C12", "deps_gt_1")),
        ("over budget", [("Forward", 0, 1, T, F, "DISK"),
                         ("Forward", 1, 2, T, F, "DISK")],
         ("C03", "disk_over")),
        ("foreign storage", [("Forward", 0, 1, T, F, "RAM")],
         ("C03", "foreign_storage")),
        ("both kinds", [("Forward", 0, 1, T, T, "DISK")],
         ("C03", "both_kinds")),
        ("malformed storage", [("Forward", 0, 1, F, F, "DISK")],
         ("C18", "malformed:storage_nothing_written")),
    ]
    for name, stream, want in cases:
        got = _tags(_run(stream))
        if want not in got:
            bad += fail(f"machine case '{name}': expected {want}, got {got}")
    # faulty stubs executing the good stream
    for name, kw, want in (
            ("lost checkpoint write", {"drop_write": True},
             ("C01", "missing_checkpoint")),
            ("checkpoint under wrong key", {"wrong_key": True},
             ("C01", "missing_checkpoint")),
            ("deps not cleared", {"keep_deps": True},
             ("C12", "load_over_data"))):
        got = _tags(_run(GOOD, **kw))
        if want not in got:
            bad += fail(f"stub '{name}': expected {want}, got {got}")
    # leftover: Move -> Copy leaves the checkpoint behind
    m = _run(edit(8, ("Copy", 0, "DISK", "WORK")))
    if m.end_stores != [((), (0,))]:
        bad += fail("leftover checkpoint not visible in end store")
    print(f"machine: {len(cases) + 5} cases "
          f"{'OK' if not bad else str(bad) + ' FAILED'}")
    return bad


# ---------------------------------------------------------------------------
def test_determinism(props=None, n=12):
    """Same run seeds, fresh interpreters, different PYTHONHASHSEED and
    worker counts: event-log fingerprints must be identical."""
    from .props import registry
    props = props or sorted(registry())
    idxs = ",".join(str(i * 53 + (i % 3)) for i in range(n))
    procs = []
    for pid in props:
        for hs, jobs in (("0", "1"), ("1", "16"), ("31337", "16")):
            env = dict(os.environ, PYTHONHASHSEED=hs, VERIF_JOBS=jobs)
            procs.append((pid, hs, subprocess.Popen(
                [sys.executable, "-B", "-m", "sim.cli", pid, "quick",
                 "--seed", "7", "--fingerprints", idxs],
                cwd=ROOT, env=env, stdout=subprocess.PIPE,
                stderr=subprocess.PIPE, text=True)))
            while sum(1 for _, _, p in procs if p.poll() is None) >= 16:
                time.sleep(0.05)
    out = {}
    bad = 0
    for pid, hs, p in procs:
        so, se = p.communicate(timeout=1200)
        if p.returncode != 0:
            bad += fail(f"determinism {pid} hashseed {hs}: rc "
                        f"{p.returncode}: {se[-300:]}")
        out.setdefault(pid, []).append(so)
    for pid, outs in out.items():
        if len(set(outs)) != 1 or "crash" in outs[0] or \
                "timeout" in outs[0]:
            bad += fail(f"determinism {pid}: fingerprints differ between "
                        "fresh interpreters / hash seeds")
    print(f"determinism: {len(props)} properties x {n} runs x 3 "
          f"interpreters {'OK' if not bad else str(bad) + ' FAILED'}")
    return bad


def main(argv):
    what = argv[0] if argv else "all"
    bad = 0
    if what in ("oracles", "all"):
        bad += test_oracles()
    if what in ("machine", "all"):
        bad += test_machine()
    if what in ("search", "all"):
        try:
            from . import search
        except ImportError:
            search = None
        if search is not None:
            bad += search.selftest(quick=(len(argv) > 1 and argv[1] == "quick"))
    if what in ("determinism", "all"):
        bad += test_determinism(argv[1:] or None)
    print("selftest", "OK" if not bad else f"FAILED ({bad})")
    return 0 if not bad else 2


if __name__ == "__main__":
    sys.exit(main(sys.argv[1:]))
