"""./check <Cxx> <quick|thorough> [--replay FILE] [--seed N] [--budget S]
[--runs N] [--fingerprints i,j,...]

Exit 0: the property held on everything explored (KNOWN-FINDING lines are
allowed).  Exit 1: at least one line 'VIOLATION property=<id> replay=<path>'.
Exit 2: harness error (never a verdict).
"""

import json
import os
import subprocess
import sys
import time

from . import campaign as C
from . import minimise as MIN
from . import world as W
from .props import registry

ROOT = os.path.dirname(os.path.dirname(os.path.abspath(__file__)))
KNOWN = os.path.join(ROOT, "known_findings.json")


def load_known():
    try:
        with open(KNOWN) as fh:
            return json.load(fh).get("findings", [])
    except FileNotFoundError:
        return []


def match_known(prop_id, v, known):
    """An *open* entry matches only its own site: property, kind, class and
    (when the entry names one) site must all be equal."""
    for e in known:
        if e.get("status") != "open" or e.get("property") != prop_id:
            continue
        if e.get("kind") != v["kind"] or e.get("cls") != v["cls"]:
            continue
        if e.get("site") is not None and e.get("site") != v.get("site"):
            continue
        return e
    return None


def replay(prop, path):
    with open(path) as fh:
        doc = json.load(fh)
    ops = doc["ops"]
    want = (doc["signature"]["kind"], doc["signature"]["cls"])
    W.lib()
    st, res = C.fork_call(lambda o: C.execute_ops(prop, o, detail=True), ops,
                          600)
    if st != "ok":
        print(f"HARNESS-ERROR replay {st}: {res}")
        return 2
    hit = [v for v in res["viol"] if (v["kind"], v["cls"]) == want]
    other = [v for v in res["viol"] if (v["kind"], v["cls"]) != want]
    print(f"replay {path}: {len(res['viol'])} violation(s) of {prop.ID}, "
          f"fingerprint {res['fp'][:16]}")
    for v in (hit + other)[:5]:
        print(f"  {v['kind']} [{v['cls']}] {v['detail']}")
    if hit or other:
        known = load_known()
        v = (hit or other)[0]
        e = match_known(prop.ID, v, known)
        if e is not None:
            print(f"KNOWN-FINDING: property={prop.ID} {e['what']}")
            return 0
        print(f"VIOLATION property={prop.ID} replay={path}")
        return 1
    print("replay does not reproduce on this tree")
    return 0


def fingerprints(prop, seed, tier, idxs):
    """Print idx:fingerprint lines (determinism self-test helper)."""
    W.lib()
    for idx in idxs:
        st, res = C.fork_call(
            lambda i: C.execute_run(prop, seed, tier, i), idx, 600)
        print(f"{idx}:{res['fp'] if st == 'ok' else st}")


def determinism_sample(prop, seed, tier, n=32):
    """Re-execute n of the campaign's runs here and in a fresh interpreter
    under another PYTHONHASHSEED; event-log fingerprints must agree."""
    idxs = [i * 37 for i in range(n)]
    mine = {}
    for idx in idxs:
        st, res = C.fork_call(
            lambda i: C.execute_run(prop, seed, tier, i), idx, 600)
        mine[idx] = res["fp"] if st == "ok" else st
    env = dict(os.environ, PYTHONHASHSEED="4242", VERIF_NO_REEXEC="1")
    out = subprocess.run(
        [sys.executable, "-B", "-m", "sim.cli", prop.ID, tier, "--seed",
         str(seed), "--fingerprints", ",".join(map(str, idxs))],
        cwd=ROOT, env=env, capture_output=True, text=True, timeout=1200)
    theirs = {}
    for line in out.stdout.splitlines():
        if ":" in line:
            a, b = line.split(":", 1)
            if a.isdigit():
                theirs[int(a)] = b
    bad = [i for i in idxs if mine.get(i) != theirs.get(i)]
    return len(idxs), bad, out.stderr[-400:] if bad else ""


def main(argv=None):
    argv = list(sys.argv[1:] if argv is None else argv)
    if not argv:
        print(__doc__)
        return 2
    reg = registry()
    pid = argv.pop(0)
    if pid not in reg:
        print(f"HARNESS-ERROR unknown property {pid}; have {sorted(reg)}")
        return 2
    prop = reg[pid]()
    tier = os.environ.get("VERIF_TIER") or "quick"
    if argv and argv[0] in ("quick", "thorough"):
        tier = argv.pop(0)
    seed = int(os.environ.get("VERIF_SEED", "0") or 0)
    budget = runs = None
    rp = fps = None
    nomin = False
    while argv:
        a = argv.pop(0)
        if a == "--replay":
            rp = argv.pop(0)
        elif a == "--seed":
            seed = int(argv.pop(0))
        elif a == "--budget":
            budget = float(argv.pop(0))
        elif a == "--runs":
            runs = int(argv.pop(0))
        elif a == "--fingerprints":
            fps = [int(x) for x in argv.pop(0).split(",") if x]
        elif a == "--no-minimise":
            nomin = True
        else:
            print(f"HARNESS-ERROR unknown argument {a}")
            return 2
    prop.prepare(tier)
    if rp:
        return replay(prop, rp)
    if fps is not None:
        fingerprints(prop, seed, tier, fps)
        return 0

    b, r = prop.BUDGET[tier]
    budget = budget if budget is not None else b
    runs = runs if runs is not None else r
    print(f"check {pid} tier={tier} seed={seed} budget={budget}s "
          f"max_runs={runs} jobs={C.JOBS} repo={W.REPO}")
    sys.stdout.flush()
    t0 = time.monotonic()
    agg, wall = C.run_campaign(prop, seed, tier, budget, runs)
    print(f"  {agg.runs} runs, {agg.actions} actions, "
          f"{len(agg.fps)} distinct histories, "
          f"{len(agg.nontrivial)} distinct non-trivial, "
          f"{agg.nviol} violation records, {wall:.1f}s")
    rc = 0
    harness = []
    if agg.crashes:
        harness.append(f"{len(agg.crashes)} child crash(es): "
                       f"{str(agg.crashes[0][1])[-600:]}")
    extra = {}
    box = getattr(prop, "box_size", lambda: 0)()
    if box:
        extra["small_box_size"] = box
        extra["exhaustive_small_box"] = bool(agg.max_idx >= box - 1
                                             and agg.runs >= box)
    # timeouts: re-run alone with 4x the limit
    stalls = []
    for idxs in agg.timeouts:
        for idx in idxs:
            st, res = C.fork_call(
                lambda i: C.execute_run(prop, seed, tier, i), idx,
                4 * prop.RUN_LIMIT_S[tier])
            if st == "timeout":
                stalls.append(idx)
            elif st == "ok":
                agg.add(res)
            else:
                harness.append(f"run {idx} crashed on re-run: {res[-300:]}")
    if stalls:
        harness.append(f"runs {stalls[:5]} stall (> "
                       f"{4 * prop.RUN_LIMIT_S[tier]} s) - not a verdict")

    # determinism sample
    if not agg.viol and not harness and \
            os.environ.get("VERIF_SKIP_DETERMINISM") != "1":
        n, bad, err = determinism_sample(prop, seed, tier,
                                         16 if tier == "quick" else 48)
        extra["determinism_rechecked_runs"] = n
        extra["determinism_mismatches"] = len(bad)
        if bad:
            harness.append(f"fingerprints differ in a fresh interpreter for "
                           f"runs {bad[:5]} {err}")

    ex2, h2, v2 = prop.post_campaign(seed, tier, agg)
    extra.update(ex2)
    harness += h2
    for v, ops in v2:
        agg.viol.append((-1, v, ops, []))

    # violations: dedupe by signature, minimise, replay files
    known = load_known()
    reported = 0
    seen = {}
    for idx, v, ops, prefix in sorted(agg.viol,
                                      key=lambda x: (x[0], x[1]["kind"])):
        sig = (v["kind"], v["cls"], v.get("site"))
        if sig in seen:
            continue
        seen[sig] = (idx, v, ops, prefix)
    knowns_printed = set()
    for sig, (idx, v, ops, prefix) in list(seen.items())[:12]:
        e = match_known(pid, v, known)
        if e is not None:
            if e["what"] not in knowns_printed:
                knowns_printed.add(e["what"])
                print(f"KNOWN-FINDING: property={pid} {e['what']}")
            continue
        mops, ok = (ops, True) if nomin else MIN.minimise(
            prop, ops, (v["kind"], v["cls"]))
        history_dependent = False
        if not ok and prefix:
            # found in a batch but does not reproduce alone: the history of
            # that process up to the run is the history (DESIGN 3.4)
            full = []
            for k, pops in enumerate(prefix):
                full += C.remap_ops(pops, k + 1)
            full += ops
            mops, ok = MIN.minimise(prop, full, (v["kind"], v["cls"]))
            history_dependent = ok
            if ok:
                print("  (does not reproduce in a pristine process on its "
                      "own: the minimised history includes earlier runs of "
                      "the same process)")
        if not ok:
            mops = ops
        vv = MIN.trial(prop, mops, (v["kind"], v["cls"])) or v
        path = MIN.write_replay(prop, seed, tier, idx, vv, mops, ops,
                                tag="-" + str(reported))
        print(f"  {vv['kind']} [{vv['cls']}] {vv['detail']}")
        print(f"  minimal ops: {json.dumps(mops)[:300]}")
        # the replay file must reproduce in a fresh interpreter under
        # another hash seed (DESIGN 3.9)
        if ok:
            env = dict(os.environ, PYTHONHASHSEED="271828")
            rp2 = subprocess.run(
                [sys.executable, "-B", "-m", "sim.cli", pid, tier,
                 "--replay", path], cwd=ROOT, env=env, capture_output=True,
                text=True, timeout=1800)
            if rp2.returncode != 1:
                harness.append(f"replay {path} did not reproduce in a fresh "
                               f"interpreter (rc {rp2.returncode})")
        if not ok:
            print("  (did not reproduce in isolation; original op list kept)")
        print(f"VIOLATION property={pid} replay={path}")
        reported += 1
        rc = 1
    if len(seen) > 12:
        print(f"  ... {len(seen) - 12} further distinct signatures not "
              "minimised")
    extra["distinct_violation_signatures"] = len(seen)
    extra["known_findings_matched"] = len(knowns_printed)
    C.write_evidence(prop, tier, seed, agg, time.monotonic() - t0, extra,
                     violations=reported)
    stuck = [x for x in prop.EXPECTED_PROBES if not agg.probes.get(x)]
    if stuck:
        print(f"  PROBE-ZERO {stuck} (reach probes that never fired in this "
              "run; informational)")
    if harness:
        for h in harness:
            print(f"HARNESS-ERROR {h}")
        if rc == 0:
            rc = 2
    if agg.runs == 0 and rc == 0:
        print("HARNESS-ERROR no run executed")
        rc = 2
    print(f"{pid} {tier}: exit {rc}")
    return rc


if __name__ == "__main__":
    sys.exit(main())
