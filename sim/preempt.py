"""E3: pre-emptive engine (DESIGN.md section 3.6).

Each task (construct one schedule and drain it with the documented executor)
runs in a real thread, but exactly one thread holds the baton at any time;
``sys.settrace`` line events in frames whose code lives under
VERIF_REPO/checkpoint_schedules are the pre-emption points.  At each of them
the running thread draws from the world PRNG whether to hand the baton to
another runnable task.  Who runs is therefore never left to the OS or the
GIL: the same seed gives the same switch log and the same streams.
"""

import hashlib
import io
import os
import random
import sys
import threading

from . import world as W

HOT = {"wrapped_fn", "shift", "cache_step", "insert_sequence",
       "remove_useless_wm", "allocate_snapshots", "action_write",
       "action_move", "action_copy"}
WAIT_S = 120


class Stall(RuntimeError):
    pass


class Preemptive:
    FILES = ("multistage.py", "mixed.py", "twolevel_binomial.py",
             "hrevolve.py", "schedule.py", "basic_schedules.py",
             "hrevolve_sequences/hrevolve.py",
             "hrevolve_sequences/revolve.py",
             "hrevolve_sequences/disk_revolve.py",
             "hrevolve_sequences/periodic_disk_revolve.py",
             "hrevolve_sequences/basic_functions.py")

    def __init__(self, seed, tasks, p_cold, p_hot, world_kw=None,
                 p_excursion=0.0, pin=None):
        self.rng = random.Random(seed)
        # pinned world: no random pre-emption at all; the only hand-over is
        # one excursion at the k-th line event of task `pin[0]`, counted
        # over frames named __init__ (pin[1] == "ctor") or over all library
        # frames ("any").  Sweeping k enumerates "a whole constructor /
        # next() of another task in the middle of one call of this task, at
        # line k" instead of sampling it.
        self.pin = tuple(pin) if pin else None
        self.pin_count = 0
        self.started = set()
        # share of hand-overs that are *excursions*: the other task runs,
        # without being pre-empted, until the library call it is in (or
        # makes next: one constructor, one next()) returns; then the baton
        # goes straight back.  This is "a second thread executes a whole
        # library call in the middle of one call of the first thread".
        self.p_excursion = p_excursion
        self.excursion = None       # (owner, runner) while one is active
        self.excursions = 0
        # swarm: besides the named hot functions, one library file per
        # world is "hot" as a whole (drawn from the world PRNG)
        self.hot_file = self.rng.choice(self.FILES)
        self.tasks = tasks
        self.p_cold, self.p_hot = p_cold, p_hot
        self.world_kw = world_kw or {"monitor_counters": False}
        self.n = len(tasks)
        self.events = [threading.Event() for _ in range(self.n)]
        self.done = threading.Event()
        self.alive = set(range(self.n))
        self.log = hashlib.sha256()
        self.switches = 0
        self.line_events = 0
        self.sites = set()
        self.worlds = [None] * self.n
        self.errors = []
        self.libdir = os.path.join(os.path.realpath(W.REPO),
                                   "checkpoint_schedules") + os.sep
        self.tls = threading.local()
        self.mid_constructor = 0

    # -- baton -------------------------------------------------------------
    def _wait(self, me):
        if not self.events[me].wait(WAIT_S):
            raise Stall(f"task {me} never got the baton back")

    def maybe_switch(self, me, frame):
        self.line_events += 1
        if self.excursion is not None:
            return                  # the runner of an excursion is not pre-empted
        code = frame.f_code
        if self.pin is not None:
            who, mode, k = self.pin[:3]
            if me != who or (mode == "ctor" and code.co_name != "__init__"):
                return
            self.pin_count += 1
            if self.pin_count != k:
                return
            others = [t for t in sorted(self.alive) if t != me]
            fresh = [t for t in others if t not in self.started]
            others = fresh or others
            if not others:
                return
            nxt = others[0]
            site = (os.path.basename(code.co_filename), frame.f_lineno)
            self.sites.add(site)
            self.switches += 1
            # pin[3] == "all": the other task runs to its end, not just
            # through one call
            self.excursion = [me, nxt, None if (len(self.pin) > 3 and
                                                self.pin[3] == "all") else 1]
            self.excursions += 1
            self.log.update(f"{me}>>!{nxt}@{site[0]}:{site[1]};".encode())
            self.events[me].clear()
            self.events[nxt].set()
            self._wait(me)
            return
        hot = (code.co_name in HOT or
               code.co_filename.endswith(self.hot_file) or
               (self.p_excursion and code.co_name == "__init__"))
        p = self.p_hot if hot else self.p_cold
        if self.rng.random() >= p:
            return
        others = [t for t in sorted(self.alive) if t != me]
        if not others:
            return
        nxt = self.rng.choice(others)
        site = (os.path.basename(code.co_filename), frame.f_lineno)
        self.sites.add(site)
        self.switches += 1
        kind = ">"
        if self.p_excursion and self.rng.random() < self.p_excursion:
            # length of the excursion in library calls of the other task:
            # mostly one; sometimes a few, or its whole remaining life
            length = 1 if self.rng.random() < 0.7 else \
                self.rng.choice((2, 5, None))
            self.excursion = [me, nxt, length]
            self.excursions += 1
            kind = ">>"
        self.log.update(f"{me}{kind}{nxt}@{site[0]}:{site[1]};".encode())
        self.events[me].clear()
        self.events[nxt].set()
        self._wait(me)

    def end_excursion(self, me):
        """The runner's library call has returned: baton back to the owner."""
        owner = self.excursion[0]
        self.excursion = None
        if owner not in self.alive:
            return
        self.log.update(f"{me}<<{owner};".encode())
        self.events[me].clear()
        self.events[owner].set()
        self._wait(me)

    def finish(self, me):
        self.alive.discard(me)
        owner = None
        if self.excursion is not None and self.excursion[1] == me:
            owner = self.excursion[0]
            self.excursion = None
        if owner is not None and owner in self.alive:
            self.log.update(f"{me}.<<{owner};".encode())
            self.events[owner].set()
        elif self.alive:
            nxt = self.rng.choice(sorted(self.alive))
            self.log.update(f"{me}.{nxt};".encode())
            self.events[nxt].set()
        else:
            self.done.set()

    # -- tracing -----------------------------------------------------------
    def _global_trace(self, frame, event, arg):
        if event == "call" and \
                frame.f_code.co_filename.startswith(self.libdir):
            self.tls.depth += 1
            return self._local_trace
        return None

    def _local_trace(self, frame, event, arg):
        if event == "line":
            self.maybe_switch(self.tls.me, frame)
        elif event == "return":
            # generator frames: every yield is a return, every resumption a
            # call, so depth 0 means "back in the harness"
            self.tls.depth -= 1
            if self.tls.depth == 0 and self.excursion is not None \
                    and self.excursion[1] == self.tls.me:
                if self.excursion[2] is not None:
                    self.excursion[2] -= 1
                    if self.excursion[2] <= 0:
                        self.end_excursion(self.tls.me)
        return self._local_trace

    # -- tasks -------------------------------------------------------------
    def _task(self, me):
        self.tls.me = me
        self.tls.depth = 0
        try:
            self._wait(me)
            self.started.add(me)
            cfg, passes = self.tasks[me]
            w = W.World(**self.world_kw)
            self.worlds[me] = w
            sys.settrace(self._global_trace)
            try:
                w.execute(["new", 0, cfg, passes, "every"])
                w.execute(["drain", 0])
                w.execute(["over", 0])
            finally:
                sys.settrace(None)
        except BaseException as e:                      # noqa: BLE001
            self.errors.append((me, repr(e)))
        finally:
            self.finish(me)

    def run(self):
        W.lib()
        out, saved = io.StringIO(), sys.stdout
        sys.stdout = out
        try:
            threads = [threading.Thread(target=self._task, args=(i,),
                                        name=f"e3-{i}", daemon=True)
                       for i in range(self.n)]
            for t in threads:
                t.start()
            first = self.rng.choice(sorted(self.alive))
            if self.pin is not None:
                first = self.pin[0]
            self.events[first].set()
            if not self.done.wait(WAIT_S * 4):
                self.errors.append((-1, "pre-emptive world did not finish"))
            for t in threads:
                t.join(5)
        finally:
            sys.stdout = saved
        return self


def run_preemptive(seed, tasks, p_cold, p_hot, world_kw=None,
                   p_excursion=0.0, pin=None):
    return Preemptive(seed, tasks, p_cold, p_hot, world_kw,
                      p_excursion, pin).run()
