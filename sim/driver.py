"""Seeded op generator (DESIGN.md sections 3.1, 3.2, 3.7).

One ``random.Random(run_seed)`` decides everything in a run.  Ops are generated
lazily (the driver sees the world) but the concrete op list is what is
recorded and replayed.
"""

import hashlib
import random
import sys

from .machine import passes_permitted, is_online
from .world import World, OBS_KINDS

VARIANTS = ("None", "SingleMemory", "SingleDiskCopy", "SingleDiskMove",
            "MultistageMax", "MultistageRev", "MixedRAM", "MixedDISK",
            "TwoLevel", "Revolve", "DiskRevolve", "PeriodicDiskRevolve",
            "HRevolve")
RF = ("Revolve", "DiskRevolve", "PeriodicDiskRevolve", "HRevolve")

UF_GRID = ("1/8", "1/4", "1/2", "3/4", "1", "5/4", "3/2", "2", "3", "4", "8")
WD_GRID = ("0", "1/8", "1/2", "1", "2", "3", "5", "8", "16")


def run_seed(seed, prop, tier, idx):
    h = hashlib.blake2b(f"{seed}|{prop}|{tier}|{idx}".encode(),
                        digest_size=8).digest()
    return int.from_bytes(h, "big")


def rng_for(seed, prop, tier, idx):
    return random.Random(run_seed(seed, prop, tier, idx))


# ---------------------------------------------------------------------------
# swarm draws
# ---------------------------------------------------------------------------

def draw_N(rng, nmax, small=8):
    """Small-first distribution on 1..nmax."""
    u = rng.random()
    if u < 0.45 or nmax <= small:
        return rng.randint(1, min(small, nmax))
    if u < 0.80:
        return rng.randint(min(small, nmax), min(3 * small, nmax))
    if u < 0.95:
        return rng.randint(min(3 * small, nmax), max(min(3 * small, nmax),
                                                    nmax // 2))
    return rng.randint(max(1, nmax // 2), nmax)


def draw_units(rng, N, lo=0, hi=None):
    """Unit counts biased to where budgets bind."""
    cands = [1, 2, 3, N - 2, N - 1, N, N + 2]
    if rng.random() < 0.7:
        v = rng.choice(cands)
    else:
        v = rng.randint(lo, max(lo, N + 2))
    v = max(lo, v)
    if hi is not None:
        v = min(v, hi)
    return v


def draw_costs(rng, default_p=0.15):
    from fractions import Fraction
    if rng.random() < default_p:
        return {"uf": "1", "ub": "1", "wd": "2", "rd": "2"}
    uf = rng.choice(UF_GRID)
    ub = uf if rng.random() < 0.2 else rng.choice(UF_GRID)
    while True:
        wd = rng.choice(WD_GRID)
        rd = wd if rng.random() < 0.2 else rng.choice(WD_GRID)
        if (Fraction(wd) + Fraction(rd)) / Fraction(uf) <= 64:
            break
    return {"uf": uf, "ub": ub, "wd": wd, "rd": rd}


UF_INEXACT = ("1/10", "3/10", "1/3", "7/10", "9/10", "11/10", "7/5", "5/3",
              "23/10", "3", "17/7")
WD_INEXACT = ("0", "1/10", "1/3", "3/5", "13/10", "2", "27/10", "5", "61/10",
              "12")


def draw_costs_inexact(rng):
    """Cost vectors that are not exactly representable in binary floating
    point (the library sees the nearest doubles)."""
    from fractions import Fraction
    uf = rng.choice(UF_INEXACT)
    ub = uf if rng.random() < 0.2 else rng.choice(UF_INEXACT)
    while True:
        wd = rng.choice(WD_INEXACT)
        rd = wd if rng.random() < 0.2 else rng.choice(WD_INEXACT)
        if (Fraction(wd) + Fraction(rd)) / Fraction(uf) <= 64:
            break
    return {"uf": uf, "ub": ub, "wd": wd, "rd": rd}


def draw_cfg(rng, variant, nmax, rf_nmax=None, valid=True):
    """Draw one valid configuration of a class variant."""
    if variant in RF:
        nmax = min(nmax, rf_nmax or nmax)
    N = draw_N(rng, nmax, small=max(8, nmax // 12))
    if variant == "None":
        return {"cls": "None", "N": N, "p": {}}
    if variant == "SingleMemory":
        return {"cls": "SingleMemory", "N": N, "p": {}}
    if variant in ("SingleDiskCopy", "SingleDiskMove"):
        move = variant == "SingleDiskMove"
        if move and rng.random() < 0.25:
            move = "np"         # numpy.bool_(True)
        return {"cls": "SingleDisk", "N": N, "p": {"move": move}}
    if variant in ("MultistageMax", "MultistageRev"):
        traj = "maximum" if variant == "MultistageMax" else "revolve"
        u = rng.random()
        if u < 0.2:
            r, d = 0, draw_units(rng, N, 1)
        elif u < 0.4:
            r, d = draw_units(rng, N, 1), 0
        else:
            r, d = draw_units(rng, N, 1), draw_units(rng, N, 1)
            if rng.random() < 0.5:
                # small totals against larger N: the allocation matters
                r, d = rng.randint(1, 3), rng.randint(1, 3)
        if N == 1 and rng.random() < 0.5:
            r, d = rng.choice(((0, 0), (0, 1), (1, 0)))
        return {"cls": "Multistage", "N": N,
                "p": {"r": r, "d": d, "traj": traj}}
    if variant in ("MixedRAM", "MixedDISK"):
        s = draw_units(rng, N, 1 if N > 1 else 0)
        return {"cls": "Mixed", "N": N,
                "p": {"s": s,
                      "storage": "RAM" if variant == "MixedRAM" else "DISK"}}
    if variant == "TwoLevel":
        u = rng.random()
        if u < 0.5:
            period = rng.randint(1, min(N + 2, 8))
        elif u < 0.8:
            # N = 0, +-1 (mod period) frequent
            period = max(1, rng.choice((N, N - 1, N + 1, N // 2, N // 2 + 1,
                                        N // 3 + 1)))
        else:
            period = rng.randint(1, N + 2)
        b = rng.choice((0, 0, 1, 1, 2, 2, 3, 4, 5, period, period + 1))
        return {"cls": "TwoLevel", "N": N,
                "p": {"period": period, "b": b,
                      "storage": rng.choice(("RAM", "DISK")),
                      "traj": rng.choice(("maximum", "revolve"))}}
    costs = draw_costs(rng)
    s = rng.choice((1, 1, 2, 2, 3, 4, 5, 6, N, N + 1)) if rng.random() < 0.85 \
        else rng.randint(1, max(1, N))
    s = max(1, min(s, 12))
    if variant == "HRevolve":
        d = rng.choice((0, 1, 1, 2, 2, 3, 4, 5, 6))
        return {"cls": "HRevolve", "N": N, "p": dict(costs, s=s, d=d)}
    return {"cls": variant, "N": N, "p": dict(costs, s=s)}


def draw_passes(rng, cfg, maxp=3):
    """Number of adjoint passes the executor asks for."""
    perm = passes_permitted(cfg["cls"], cfg["p"])
    if perm == 0:
        return 0
    if perm == 1:
        return 1
    return rng.choice((1, 1, 2, 2, 3, maxp))


# ---------------------------------------------------------------------------
# driver
# ---------------------------------------------------------------------------

class Plan:
    """What a campaign wants from one run: slot configurations and fault
    rates.  Drawn by the property module from the run's PRNG."""

    def __init__(self, slots, faults=None, knobs=None, calls=None,
                 interleave=False, overrun=0, conclude_obs=0,
                 obs_kinds=None):
        self.slots = slots            # list of (cfg, passes, style)
        self.faults = faults or {}    # name -> rate per protocol step
        self.knobs = knobs or []
        self.calls = calls or []      # helper calls available as co-tenants
        self.interleave = interleave
        self.overrun = overrun        # next() calls after conclusion
        self.conclude_obs = conclude_obs
        self.obs_kinds = obs_kinds or OBS_KINDS


def wants_more(slot):
    """Does the simulated executor want another next() from this slot?"""
    if slot.state != "live":
        return False
    m = slot.machine
    if slot.passes_wanted == 0:
        return m.phase == "FWD"
    return m.passes < slot.passes_wanted


class Driver:
    """Turns a Plan into ops, one at a time, using only ``rng``."""

    def __init__(self, rng, plan):
        self.rng = rng
        self.plan = plan
        self.pending = list(range(len(plan.slots)))
        self.queue = [["knob", k, v] for k, v in plan.knobs]
        self.overran = {}
        self.concluded = set()
        self.calls_left = list(plan.calls)
        self.nfaults = 0

    def _obs(self, sid):
        return ["obs", sid, self.rng.choice(self.plan.obs_kinds)]

    def next_op(self, w):
        if self.queue:
            return self.queue.pop(0)
        rng, plan = self.rng, self.plan
        live = [sid for sid in sorted(w.slots) if wants_more(w.slots[sid])]
        # start slots: all at once when interleaving, else one after another
        if self.pending and (not live or (plan.interleave
                                          and rng.random() < 0.3)):
            i = self.pending.pop(0)
            cfg, passes, style = plan.slots[i]
            self.queue_after_new(i)
            return ["new", i, cfg, passes, style]
        if self.calls_left and rng.random() < plan.faults.get("call", 0):
            return self.calls_left.pop(0)
        if live:
            sid = rng.choice(live) if plan.interleave else live[0]
            f = plan.faults
            if not plan.interleave and not f.get("obs") and not f.get("fin") \
                    and not f.get("badfin"):
                return ["drain", sid]
            if f:
                u = rng.random()
                acc = 0.0
                for name in ("obs", "fin", "badfin"):
                    acc += f.get(name, 0)
                    if u < acc:
                        self.nfaults += 1
                        if name == "obs":
                            return self._obs(sid)
                        if name == "badfin":
                            return ["fin", sid,
                                    self.draw_bad_k(w.slots[sid])]
                        return ["fin", sid, self.draw_k(w.slots[sid])]
            return ["next", sid]
        # nothing wants a step: wrap up concluded slots
        for sid in sorted(w.slots):
            s = w.slots[sid]
            if sid in self.concluded:
                continue
            if s.state == "live":
                self.queue.append(["conclude", sid])
            n_over = plan.overrun if (s.final_emitted or s.stops) else 0
            for _ in range(n_over):
                self.queue.append(["over", sid])
                if plan.faults.get("obs") and rng.random() < 0.5:
                    self.queue.append(self._obs(sid))
            for _ in range(plan.conclude_obs):
                self.queue.append(self._obs(sid))
            if "fin_after" in plan.faults and rng.random() < \
                    plan.faults["fin_after"]:
                self.queue.append(["fin", sid, self.draw_k(s)])
            self.concluded.add(sid)
            if plan.interleave and rng.random() < 0.5:
                self.queue.append(["del", sid])
            if self.queue:
                return self.queue.pop(0)
        if self.pending:
            return self.next_op(w)
        if self.calls_left:
            return self.calls_left.pop(0)
        return None

    def queue_after_new(self, sid):
        f = self.plan.faults
        if f.get("obs_before") and self.rng.random() < f["obs_before"]:
            for _ in range(self.rng.randint(1, 3)):
                self.queue.append(self._obs(sid))
        if f.get("fin_before") and self.rng.random() < f["fin_before"]:
            self.queue.append(["fin", sid, self.rng.choice((1, 2, 0, -1))])

    def draw_bad_k(self, s):
        """An argument that finalize() must reject in the slot's present
        state (DESIGN 5.5): below 1, beyond what the forward was told, or
        different from a max_n that is already known."""
        if s.finalized or not is_online(s.cls):
            pool = [-1, 0, s.N + 1, s.N + 7]
        else:
            pool = [-1, 0, s.told + 1, s.told + 5]
        return self.rng.choice(pool)

    def draw_k(self, s):
        N, told = s.N, s.told
        pool = [-1, 0, 1, told - 1, told, told + 1, N - 1, N, N + 1,
                sys.maxsize]
        return self.rng.choice(pool)


class ListDriver:
    """Replay: executes a recorded op list verbatim, no PRNG."""

    def __init__(self, ops):
        self.ops = list(ops)
        self.i = 0

    def next_op(self, w):
        if self.i >= len(self.ops):
            return None
        op = self.ops[self.i]
        self.i += 1
        return op


MAX_OPS = 200000


def run(driver, **world_kw):
    """Run one world to completion; returns the World."""
    w = World(**world_kw)
    while True:
        op = driver.next_op(w)
        if op is None:
            break
        w.execute(op)
        if w.n_ops > MAX_OPS:
            w.violation("C02", "no_conclusion", None,
                        f"world exceeded {MAX_OPS} ops")
            break
    w.totals()
    return w
