"""World = slots of live schedules + the simulated executor per slot + the op
interpreter + the event log (DESIGN.md section 3.2, 3.3).

Only this module (and probes in campaign.py) touches the library under test.
The library is imported from VERIF_REPO (default /repo).
"""

import contextlib
import hashlib
import io
import json
import os
import sys
import warnings
from fractions import Fraction

from . import machine as M
from .machine import Machine, norm, passes_permitted, is_online

REPO = os.environ.get("VERIF_REPO", "/repo")
_lib = None


def lib():
    """Import checkpoint_schedules from the working tree under test."""
    global _lib
    if _lib is None:
        if sys.path[0] != REPO:
            sys.path.insert(0, REPO)
        import checkpoint_schedules as cs          # noqa: E402
        import checkpoint_schedules.mixed          # noqa: F401
        import checkpoint_schedules.multistage     # noqa: F401
        import checkpoint_schedules.schedule       # noqa: F401
        got = os.path.realpath(os.path.dirname(os.path.dirname(cs.__file__)))
        if got != os.path.realpath(REPO):
            raise RuntimeError(
                f"HARNESS: checkpoint_schedules imported from {got}, "
                f"expected {REPO}")
        warnings.filterwarnings("ignore", category=RuntimeWarning,
                                message="Numba not available")
        _lib = cs
    return _lib


def storage(name):
    return getattr(lib().StorageType, name)


def fl(x):
    return float(Fraction(x))


def costs_of(p):
    return tuple(Fraction(p.get(k, d)) for k, d in
                 (("uf", 1), ("ub", 1), ("wd", 2), ("rd", 2)))


def build(cfg):
    """Construct the schedule object a cfg describes (stdout captured).

    ``p["call"]`` (optional) selects an unusual but legal calling form:
    'np' passes every integral parameter as ``numpy.int64``, 'kw' passes the
    positional-or-keyword parameters by keyword, 'npkw' does both, 'pos' /
    'nppos' pass the four costs of the Revolve family positionally."""
    cs = lib()
    c, p, N = cfg["cls"], cfg["p"], cfg["N"]
    form = p.get("call") or ""
    if "np32" in form:
        import numpy

        def i(v):
            return numpy.int32(v)
    elif "np" in form:
        import numpy

        def i(v):
            return numpy.int64(v)
    else:
        def i(v):
            return v

    def mk(cls, names, vals, **kw):
        vals = [i(v) for v in vals]
        if "kw" in form:
            kw = dict(zip(names, vals), **kw)
            vals = []
        return cls(*vals, **kw)

    with contextlib.redirect_stdout(io.StringIO()):
        if c == "None":
            return cs.NoneCheckpointSchedule()
        if c == "SingleMemory":
            return cs.SingleMemoryStorageSchedule()
        if c == "SingleDisk":
            move = p["move"]
            if move == "np":
                # a truthy flag that is not the True singleton
                import numpy
                move = numpy.bool_(True)
            return cs.SingleDiskStorageSchedule(move_data=move)
        if c == "Multistage":
            return mk(cs.MultistageCheckpointSchedule,
                      ("max_n", "snapshots_in_ram", "snapshots_on_disk"),
                      (N, p["r"], p["d"]), trajectory=p["traj"])
        if c == "Mixed":
            return mk(cs.MixedCheckpointSchedule, ("max_n", "snapshots"),
                      (N, p["s"]), storage=storage(p["storage"]))
        if c == "TwoLevel":
            return mk(cs.TwoLevelCheckpointSchedule,
                      ("period", "binomial_snapshots"), (p["period"], p["b"]),
                      binomial_storage=storage(p["storage"]),
                      binomial_trajectory=p["traj"])
        kw = {k: fl(p[k]) for k in ("uf", "ub", "wd", "rd") if k in p}
        if kw == {"uf": 1.0, "ub": 1.0, "wd": 2.0, "rd": 2.0}:
            # the documented default cost vector: rely on the constructor's
            # own defaults, as most callers do
            kw = {}
        elif p.get("costs_int") and all(v == int(v) for v in kw.values()):
            # integral costs passed as Python ints, as the documentation's
            # examples do
            kw = {k: int(v) for k, v in kw.items()}
        elif p.get("costs_form") == "np":
            import numpy
            kw = {k: numpy.float64(v) for k, v in kw.items()}
        elif p.get("costs_form") == "frac":
            kw = {k: Fraction(p[k]) for k in kw}
        if "pos" in form and len(kw) == 4 and "kw" not in form:
            # costs passed positionally in the documented order
            tail = [kw[k] for k in ("uf", "ub", "wd", "rd")]
            args = [i(N), i(p["s"])] + ([i(p["d"])] if c == "HRevolve"
                                        else []) + tail
            return getattr(cs, c)(*args)
        if c == "Revolve":
            return mk(cs.Revolve, ("max_n", "snapshots_in_ram"),
                      (N, p["s"]), **kw)
        if c == "DiskRevolve":
            return mk(cs.DiskRevolve, ("max_n", "snapshots_in_ram"),
                      (N, p["s"]), **kw)
        if c == "PeriodicDiskRevolve":
            return mk(cs.PeriodicDiskRevolve, ("max_n", "snapshots_in_ram"),
                      (N, p["s"]), **kw)
        if c == "HRevolve":
            return mk(cs.HRevolve,
                      ("max_n", "snapshots_in_ram", "snapshots_on_disk"),
                      (N, p["s"], p["d"]), **kw)
    raise KeyError(c)


def set_planner(value):
    """F8 knob: 'memo' (numba absent, shipped behaviour here) or 'tabulated'
    (the code path taken when numba is importable, run through the module's
    own fallback njit as plain Python)."""
    lib()
    mixed = sys.modules["checkpoint_schedules.mixed"]
    mixed.numba = None if value == "memo" else _NUMBA_SENTINEL


class _Sentinel:
    def __repr__(self):
        return "<numba stand-in>"


_NUMBA_SENTINEL = _Sentinel()

OBS_KINDS = ("n", "r", "max_n", "is_exhausted", "is_running",
             "uses:RAM", "uses:DISK", "uses:WORK", "uses:NONE")


def step_cap(cfg):
    """Bound on actions per pass (bounded liveness, DESIGN 3.5)."""
    p = cfg["p"]
    units = 0
    for k in ("r", "d", "s", "b"):
        v = p.get(k, 0)
        if isinstance(v, int) and v > 0:
            units += v
    N = max(cfg["N"], 1)
    units = min(units, N)
    return 4 * (units + 6) * N + 64


class Slot:
    def __init__(self, sid, cfg, passes, style, keep_log=False):
        self.sid = sid
        self.cfg = cfg
        self.cls = cfg["cls"]
        self.N = cfg["N"]
        self.passes_wanted = passes
        # style: every | first | manual, optionally "+for": the executor
        # drives the schedule the way the class docstring shows, with a
        # fresh `for` loop (iter()) per adjoint pass, left by `break`
        self.drive = "for" if style.endswith("+for") else "next"
        self.it = None
        style = style.split("+")[0]
        self.style = style
        self.sched = None
        self.machine = Machine(self.cls, cfg["p"], self.N, costs_of(cfg["p"]),
                               keep_log=keep_log)
        self.stream = []            # normalised actions
        self.raw = []               # raw action objects (C18), optional
        self.state = "new"          # live | concluded | dead | construct_failed
        self.how = None             # how it concluded
        self.stops = 0
        self.nexts = 0
        self.finalized = False
        self.permitted = passes_permitted(self.cls, cfg["p"])
        self.obs = []               # (nexts, what, outcome, final_emitted)
        self.fins = []              # injected finalize records
        self.final_emitted = False  # the final action of the stream was seen
        self.actions_in_pass = 0
        self.cap = step_cap(cfg)
        self.construct_exc = None
        self.raise_exc = None
        self.told = 0               # n1 of the last forward-phase Forward
        self.pos_defined = True
        self.counter_reads = 0
        self.post = []              # outcomes of next() after the final action
        self.N_final = None


class World:
    """Executes ops; records events; collects violations."""

    def __init__(self, monitor_counters=True, keep_raw=False, keep_log=False,
                 detail=False):
        self.slots = {}
        self.events = []
        self.viol = []
        self.hash = hashlib.sha256()
        self.monitor_counters = monitor_counters
        self.keep_raw = keep_raw
        self.keep_log = keep_log
        self.detail = detail
        self.n_ops = 0
        self.ops = []
        self.faults = {}            # fired counts per fault kind
        self.probes = {}
        self.n_actions = 0
        self.sim_time = Fraction(0)
        self.dropped = []           # slots deleted (kept for checkers)
        self.calls = []             # helper-call records
        self.slot_order = []        # sequence of slot ids over next ops
        self.planner = "memo"

    # -- bookkeeping -------------------------------------------------------
    def fault(self, kind, n=1):
        self.faults[kind] = self.faults.get(kind, 0) + n

    def probe(self, name, n=1):
        self.probes[name] = self.probes.get(name, 0) + n

    def violation(self, prop, kind, slot, detail, site=None):
        self.viol.append({
            "prop": prop, "kind": kind,
            "cls": slot.cls if slot is not None else None,
            "slot": slot.sid if slot is not None else None,
            "cfg": slot.cfg if slot is not None else None,
            "detail": detail, "site": site, "op": self.n_ops})

    def _event(self, op, outcome, slot):
        dg = slot.machine.digest() if slot is not None else None
        ev = [self.n_ops, op, outcome, dg]
        self.hash.update(json.dumps(ev, separators=(",", ":"),
                                    default=str).encode())
        if self.detail:
            self.events.append(ev)

    def fingerprint(self):
        return self.hash.hexdigest()

    def all_slots(self):
        return self.dropped + [self.slots[k] for k in sorted(self.slots)]

    # -- op interpreter ------------------------------------------------------
    def execute(self, op):
        """Execute one op.  Ill-formed ops (possible in shrunk lists) are
        deterministic no-ops."""
        self.ops.append(op)
        name = op[0]
        fn = getattr(self, "op_" + name, None)
        if fn is None:
            self._event(op, ["noop"], None)
        else:
            fn(op)
        self.n_ops += 1

    def _slot(self, op):
        s = self.slots.get(op[1])
        if s is None:
            self._event(op, ["noop"], None)
        return s

    def op_knob(self, op):
        if op[1] == "planner" and op[2] in ("memo", "tabulated"):
            set_planner(op[2])
            self.planner = op[2]
            if op[2] == "tabulated":
                self.fault("knob_flip")
        self._event(op, ["ok"], None)

    def op_new(self, op):
        _, sid, cfg, passes, style = op
        if sid in self.slots:
            self._event(op, ["noop"], None)
            return
        s = Slot(sid, cfg, passes, style, keep_log=self.keep_log)
        try:
            s.sched = build(cfg)
        except Exception as e:                      # noqa: BLE001
            s.state = "construct_failed"
            s.construct_exc = type(e).__name__
            s.how = "construct_failed"
            self.slots[sid] = s
            self._event(op, ["raise", type(e).__name__], s)
            return
        s.state = "live"
        self.slots[sid] = s
        if len(self.slots) > 1:
            self.fault("co_tenants")
        self._event(op, ["ok"], s)
        if self.monitor_counters:
            self._counters(s, after="construction")

    def op_del(self, op):
        s = self._slot(op)
        if s is None:
            return
        del self.slots[s.sid]
        s.sched = None
        self.dropped.append(s)
        self._event(op, ["ok"], None)

    def op_next(self, op, overrun=False):
        s = self._slot(op)
        if s is None:
            return
        if s.sched is None or s.state in ("construct_failed",):
            self._event(op, ["noop"], s)
            return
        if not overrun:
            from .driver import wants_more
            if not wants_more(s):
                self._event(op, ["noop"], s)
                return
        s.nexts += 1
        self.slot_order.append(s.sid)
        was_final = s.final_emitted or s.stops > 0
        try:
            if s.drive == "for":
                if s.it is None:
                    s.it = iter(s.sched)
                a = next(s.it)
            else:
                a = next(s.sched)
        except StopIteration:
            s.stops += 1
            if was_final:
                s.post.append("stop")
            if s.state == "live":
                s.state = "concluded"
                s.how = "stop"
            self._event(op, ["stop"], s)
            return
        except Exception as e:                      # noqa: BLE001
            if was_final:
                s.post.append("raise:" + type(e).__name__)
            if s.state == "live":
                s.state = "dead"
                s.how = "raise"
                s.raise_exc = (type(e).__name__, str(e)[:120], len(s.stream))
            self._event(op, ["raise", type(e).__name__], s)
            return
        t = norm(a)
        if was_final:
            s.post.append("action")
        s.stream.append(t)
        if self.keep_raw:
            s.raw.append(a)
        self.n_actions += 1
        m = s.machine
        try:
            known = s.sched.max_n is not None
        except Exception:                           # noqa: BLE001
            known = True
        if s.final_emitted or s.stops:
            m.v("C02", "after_final",
                f"{t!r} emitted after the stream had concluded")
        if t[0] == "Forward" and m.phase == "FWD":
            if isinstance(t[2], int):
                s.told = t[2]
        before = len(m.viol)
        pass_no = m.passes
        m.apply(t, known)
        for v in m.viol[before:]:
            self.violation(v["prop"], v["kind"], s, v["detail"], v["site"])
            self.viol[-1]["pass"] = pass_no
        s.actions_in_pass += 1
        outcome = ["action", list(t)]
        # the documented executor: finalize when the forward arrives at N
        if (t[0] == "Forward" and m.fwd == s.N and s.style != "manual"
                and (s.style == "every" or not s.finalized)):
            if s.finalized or not is_online(s.cls):
                self.fault("repeat_finalize")
            try:
                nfin = s.N
                if "np" in (s.cfg["p"].get("call") or ""):
                    import numpy
                    nfin = numpy.int64(nfin)
                s.sched.finalize(nfin)
                s.finalized = True
                outcome.append("finalize:ok")
            except Exception as e:                  # noqa: BLE001
                outcome.append("finalize:" + type(e).__name__)
                self.violation(
                    "C10", "rejected_should_accept", s,
                    f"finalize({s.N}) by the executor when the forward "
                    f"arrived at {s.N} raised {type(e).__name__}",
                    site="in-action")
        if t[0] == "EndReverse":
            # `break` out of the documented for loop: the iterator object
            # obtained from iter() is dropped
            s.it = None
            s.actions_in_pass = 0
            if s.permitted is not None and m.passes >= s.permitted:
                s.final_emitted = True
            if m.passes >= 2:
                self.probe("pass%d" % min(m.passes, 3))
        elif t[0] == "EndForward":
            s.actions_in_pass = 0
            if s.permitted == 0:
                s.final_emitted = True
        if s.actions_in_pass > s.cap and s.state == "live":
            s.state = "dead"
            s.how = "no_conclusion"
            self.violation("C02", "no_conclusion", s,
                           f"more than {s.cap} actions in one pass")
        self._event(op, outcome, s)
        if self.monitor_counters and s.style != "manual":
            self._counters(s, after=t)

    def op_drain(self, op):
        """Macro op: next() until the simulated executor wants no more."""
        from .driver import wants_more
        s = self._slot(op)
        if s is None:
            return
        guard = 0
        while wants_more(s):
            self.op_next(["next", s.sid])
            guard += 1
            if guard > 4000000:
                break

    def op_over(self, op):
        s = self.slots.get(op[1])
        if s is not None and s.sched is not None:
            self.fault("overrun_next")
        self.op_next(op, overrun=True)

    def op_conclude(self, op):
        """Executor decides to stop using the slot (bookkeeping only)."""
        s = self._slot(op)
        if s is None:
            return
        if s.state == "live":
            s.state = "concluded"
            s.how = "enough"
        self._event(op, ["ok"], s)

    def op_fin(self, op):
        s = self._slot(op)
        if s is None:
            return
        if s.sched is None:
            self._event(op, ["noop"], s)
            return
        k = op[2]
        sc = s.sched
        pre = self._triple(sc)
        try:
            sc.finalize(k)
            out = "ok"
        except Exception as e:                      # noqa: BLE001
            out = type(e).__name__
        post = self._triple(sc)
        rec = {"k": k, "out": out, "pre": pre, "post": post,
               "at": len(s.stream), "told": s.told,
               "pos": s.machine.fwd, "phase": s.machine.phase,
               "started": s.nexts > 0, "state": s.state,
               "finalized_before": s.finalized, "op": self.n_ops}
        s.fins.append(rec)
        if out == "ok" and pre[2] is None:
            # the executor, having declared the end to be k, regards the
            # forward as standing at k
            s.finalized = True
            s.N_final = k
            if isinstance(k, int) and k >= 1:
                if k > 10 ** 6:
                    s.state = "concluded"
                    s.how = "huge"
                    s.machine.fwd = k
                else:
                    s.N = k
                    s.machine.N = k
                    s.machine.fwd = k
                    s.cap = max(s.cap, step_cap(dict(s.cfg, N=k)))
        self.fault("finalize_injected")
        self._event(op, ["fin", out, pre, post], s)

    @staticmethod
    def _triple(sc):
        try:
            return [M.norm_arg(sc.n), M.norm_arg(sc.r),
                    None if sc.max_n is None else M.norm_arg(sc.max_n)]
        except Exception as e:                      # noqa: BLE001
            return ["raise", type(e).__name__, None]

    def op_obs(self, op):
        s = self._slot(op)
        if s is None:
            return
        if s.sched is None:
            self._event(op, ["noop"], s)
            return
        what = op[2]
        sc = s.sched
        try:
            if what.startswith("uses:"):
                val = sc.uses_storage_type(storage(what[5:]))
                val = val if val is None else bool(val)
            else:
                val = getattr(sc, what)
                val = M.norm_arg(val) if val is not None else None
            out = ["val", val]
        except Exception as e:                      # noqa: BLE001
            out = ["raise", type(e).__name__]
        s.obs.append((s.nexts, what, out, s.final_emitted, s.stops,
                      len(s.stream), self.n_ops))
        self.fault("observer")
        if s.nexts == 0:
            self.probe("obs_before_first_next")
        if s.final_emitted or s.stops:
            self.probe("obs_after_exhaustion")
        self._event(op, out, s)

    def op_call(self, op):
        """Co-tenant use of the public helpers sharing the memo tables."""
        _, fn, n, sn = op[:4]
        lib()
        try:
            if fn == "optimal_steps_binomial":
                val = sys.modules["checkpoint_schedules.multistage"] \
                    .optimal_steps_binomial(n, sn)
            elif fn == "optimal_steps_mixed":
                val = sys.modules["checkpoint_schedules.mixed"] \
                    .optimal_steps_mixed(n, sn)
            elif fn == "mixed_step_memoization":
                val = sys.modules["checkpoint_schedules.mixed"] \
                    .mixed_step_memoization(n, sn)
                val = [int(x) for x in val]
            elif fn == "n_advance":
                val = sys.modules["checkpoint_schedules.multistage"] \
                    .n_advance(n, sn, trajectory=op[4] if len(op) > 4
                               else "maximum")
            else:
                self._event(op, ["noop"], None)
                return
            out = ["val", M.norm_arg(val) if not isinstance(val, list)
                   else val]
        except Exception as e:                      # noqa: BLE001
            out = ["raise", type(e).__name__]
        self.calls.append((op, out))
        self.fault("helper_call")
        self._event(op, out, None)

    def op_sweep(self, op):
        """Helper sweep: fn(n, s) for all n <= nmax, 1 <= s <= min(smax,
        n - 1); every value is recorded like an individual call."""
        _, fn, nmax, smax = op
        lib()
        h = hashlib.sha256()
        count = 0
        if fn.startswith("n_advance:"):
            # forward steps of the binomial recursion that the schedules
            # build from n_advance: store a checkpoint, advance i steps,
            # reverse the rest with one unit less, come back
            traj = fn.split(":", 1)[1]
            nadv = sys.modules["checkpoint_schedules.multistage"].n_advance
            memo = {}

            def extra(n, sn):
                if n == 1:
                    return 0
                sn = min(sn, n - 1)
                key = (n, sn)
                if key not in memo:
                    i = int(nadv(n, sn, trajectory=traj))
                    if not 1 <= i < n or (sn == 1 and i != n - 1):
                        raise ValueError(f"n_advance({n}, {sn}) = {i}")
                    memo[key] = i + extra(n - i, sn - 1) + extra(i, sn)
                return memo[key]
            import sys as _sys
            old = _sys.getrecursionlimit()
            _sys.setrecursionlimit(max(old, 4 * nmax + 200))
            try:
                for n in range(2, nmax + 1):
                    for sn in range(1, min(smax, n - 1) + 1):
                        try:
                            out = ["val", n + extra(n, sn)]
                        except Exception as e:      # noqa: BLE001
                            out = ["raise", type(e).__name__, str(e)[:60]]
                        self.calls.append((["call", fn, n, sn], out))
                        h.update(repr(out).encode())
                        count += 1
            finally:
                _sys.setrecursionlimit(old)
            f = None
        else:
            mod = sys.modules["checkpoint_schedules.multistage" if fn ==
                              "optimal_steps_binomial" else
                              "checkpoint_schedules.mixed"]
            f = getattr(mod, fn, None)
        if f is not None:
            for n in range(2, nmax + 1):
                for sn in range(1, min(smax, n - 1) + 1):
                    try:
                        val = f(n, sn)
                        val = [int(x) for x in val] if isinstance(
                            val, tuple) else M.norm_arg(val)
                        out = ["val", val]
                    except Exception as e:          # noqa: BLE001
                        out = ["raise", type(e).__name__]
                    self.calls.append((["call", fn, n, sn], out))
                    h.update(repr(out).encode())
                    count += 1
        self.fault("helper_call", count)
        self.probe("helper_sweep_entries", count)
        self._event(op, ["sweep", count, h.hexdigest()[:16]], None)

    def op_e3(self, op):
        """Macro op: a pre-emptive sub-world (engine E3).  Tasks become slots
        of this world so that the ordinary history checkers apply."""
        from .preempt import run_preemptive
        _, seed, tasks, p_cold, p_hot = op[:5]
        p_exc = op[5] if len(op) > 5 else 0.0
        pin = op[6] if len(op) > 6 else None
        res = run_preemptive(seed, [tuple(t) for t in tasks], p_cold, p_hot,
                             {"monitor_counters": False}, p_exc, pin)
        if pin:
            self.probe("e3_pinned_worlds")
            if res.excursions:
                self.probe("e3_pinned_excursions")
        base = 1000 * (1 + sum(1 for o in self.ops[:-1] if o[0] == "e3"))
        for i, tw in enumerate(res.worlds):
            if tw is None:
                continue
            for s in tw.all_slots():
                s.sid = base + i
                s.sched = None
                self.dropped.append(s)
            self.n_actions += tw.n_actions
            for v in tw.viol:
                v = dict(v, slot=base + i)
                self.viol.append(v)
        self.fault("preemption", res.switches)
        self.probe("e3_worlds")
        self.probe("e3_line_events", res.line_events)
        self.probe("e3_switches", res.switches)
        self.probe("e3_excursions", res.excursions)
        self.probe("e3_distinct_sites", len(res.sites))
        self.e3_errors = getattr(self, "e3_errors", []) + res.errors
        self._event(op, ["e3", res.switches, res.line_events,
                         res.log.hexdigest()[:16], res.errors], None)

    def op_table(self, op):
        """C16: every row of the tabulated planner's table against the
        memoised planner (n_i <= n, 1 <= s_i <= min(s, n_i - 1))."""
        _, n, sn = op
        lib()
        mixed = sys.modules["checkpoint_schedules.mixed"]
        try:
            tab = mixed.mixed_steps_tabulation(n, sn)
            rows = 0
            bad = None
            for n_i in range(2, n + 1):
                for s_i in range(1, min(sn, n_i - 1) + 1):
                    a = [int(x) for x in tab[n_i, s_i]]
                    b = [int(x) for x in
                         mixed.mixed_step_memoization(n_i, s_i)]
                    rows += 1
                    if a != b and bad is None:
                        bad = [n_i, s_i, a, b]
            out = ["rows", rows, bad]
        except Exception as e:                      # noqa: BLE001
            out = ["raise", type(e).__name__, str(e)[:80]]
        self.calls.append((op, out))
        self._event(op, out, None)

    # -- C08 monitor ---------------------------------------------------------
    def _counters(self, s, after):
        sc, m = s.sched, s.machine
        s.counter_reads += 1
        try:
            n, r, mx = sc.n, sc.r, sc.max_n
        except Exception as e:                      # noqa: BLE001
            self.violation("C08", "n_wrong", s,
                           f"reading n/r/max_n raised {type(e).__name__}")
            return
        if m.fwd is not None and n != m.fwd:
            self.violation(
                "C08", "n_wrong", s,
                f"after {after!r}: schedule.n = {n} but the forward stands "
                f"at {m.fwd}")
        if isinstance(after, tuple) and after[0] == "EndReverse":
            again = s.permitted is None or m.passes < s.permitted
            exp = 0 if again else s.N
            if r != exp:
                self.violation(
                    "C08", "r_at_endreverse", s,
                    f"after EndReverse of pass {m.passes}: schedule.r = {r},"
                    f" expected {exp} (another calculation is "
                    f"{'' if again else 'not '}permitted)",
                    site="EndReverse")
        else:
            exp = 0 if m.phase == "FWD" else s.N - m.adj
            if r != exp:
                self.violation(
                    "C08", "r_wrong", s,
                    f"after {after!r}: schedule.r = {r} but {exp} steps "
                    f"have been reversed")
        exp = s.N if (not is_online(s.cls) or s.finalized) else None
        if mx != exp:
            self.violation(
                "C08", "max_n_wrong", s,
                f"after {after!r}: schedule.max_n = {mx}, expected {exp}")

    # -- end of world ----------------------------------------------------------
    def totals(self):
        for s in self.all_slots():
            self.sim_time += s.machine.clock
