"""Reference machine: the executable meaning of "the action stream is carried
out literally by a solver" (DESIGN.md section 4).

The machine imports nothing from /repo.  It consumes *normalised* actions
(tuples ``(kind, arg, ...)`` with ints, bools and storage names) and keeps the
state that the library itself never keeps: where the forward stands, where the
adjoint stands, what is held in WORK, which checkpoints are held in RAM and on
DISK, and a simulated cost clock.  Every guard is tagged with the id of the
property it belongs to; a check reports only its own id.
"""

from fractions import Fraction
import numbers
import sys

RAM, DISK, WORK, NONE = "RAM", "DISK", "WORK", "NONE"
MAXSIZE = sys.maxsize

#: number of adjoint calculations a class variant permits (None = unbounded)
INF = None


def passes_permitted(cls, params):
    if cls == "None":
        return 0
    if cls in ("SingleMemory", "TwoLevel"):
        return INF
    if cls == "SingleDisk":
        return 1 if params.get("move") else INF
    return 1


def is_online(cls):
    return cls in ("None", "SingleMemory", "SingleDisk", "TwoLevel")


def norm_arg(x):
    """Normalise one action argument to a JSON-able, comparable value."""
    tn = type(x).__name__
    if isinstance(x, bool) or tn == "bool_" or tn == "bool":
        return bool(x)
    if isinstance(x, numbers.Integral):
        return int(x)
    if tn == "StorageType":
        return x.name
    return ["?", repr(x)]


def norm(action):
    """Normalise an action object to ``(kind, *args)``."""
    return (type(action).__name__,) + tuple(norm_arg(x) for x in action.args)


def budgets(cls, p):
    """Declared (RAM, DISK) budgets; None = unbounded, a callable = depends on
    the machine (TwoLevel: periods started)."""
    if cls in ("None", "SingleMemory"):
        return 0, 0
    if cls == "SingleDisk":
        return 0, "N"
    if cls == "Multistage":
        return p["r"], p["d"]
    if cls == "Mixed":
        return (p["s"], 0) if p["storage"] == RAM else (0, p["s"])
    if cls == "TwoLevel":
        if p["storage"] == RAM:
            return p["b"], "periods"
        return 0, "periods+b"
    if cls == "Revolve":
        return p["s"], 0
    if cls in ("DiskRevolve", "PeriodicDiskRevolve"):
        return p["s"], None
    if cls == "HRevolve":
        return p["s"], p["d"]
    raise KeyError(cls)


class Machine:
    __slots__ = (
        "cls", "p", "N", "fwd", "phase", "adj", "passes", "loaded", "deps",
        "store", "clock", "uf", "ub", "wd", "rd", "fwd_steps", "rev_steps",
        "disk_writes", "disk_reads", "ram_writes", "ram_reads", "viol",
        "fwd_phase_forwards", "S_EF", "end_stores", "peak_ram", "peak_disk",
        "bud", "n_actions", "log", "keep_log", "endforwards", "pass_fwd_steps",
        "fwd_steps_at_pass_start", "states", "offline", "exempt_deps",
        "budget_reached", "reread_disk", "disk_read_keys", "deps_ckpt_written",
    )

    def __init__(self, cls, params, N, costs=None, keep_log=False):
        self.cls = cls
        self.p = params
        self.N = N
        self.fwd = 0
        self.phase = "FWD"
        self.adj = None
        self.passes = 0
        self.loaded = None
        self.deps = set()
        self.store = {RAM: {}, DISK: {}}
        c = costs or (1, 1, 2, 2)
        self.uf, self.ub, self.wd, self.rd = (Fraction(x) for x in c)
        self.clock = Fraction(0)
        self.fwd_steps = self.rev_steps = 0
        self.disk_writes = self.disk_reads = 0
        self.ram_writes = self.ram_reads = 0
        self.viol = []
        self.fwd_phase_forwards = 0
        self.S_EF = None
        self.end_stores = []
        self.peak_ram = self.peak_disk = 0
        self.bud = budgets(cls, params)
        self.n_actions = 0
        self.keep_log = keep_log
        self.log = []
        self.endforwards = 0
        self.pass_fwd_steps = []
        self.fwd_steps_at_pass_start = 0
        self.offline = not is_online(cls)
        self.exempt_deps = cls == "SingleMemory"
        self.budget_reached = False
        self.reread_disk = False
        self.disk_read_keys = set()
        self.deps_ckpt_written = False

    # ------------------------------------------------------------------
    def v(self, prop, kind, detail, site=None):
        self.viol.append({"prop": prop, "kind": kind, "detail": detail,
                          "site": site, "at": self.n_actions})

    def store_keys(self):
        return (tuple(sorted(self.store[RAM])), tuple(sorted(self.store[DISK])))

    def digest(self):
        """Canonical, JSON-able description of the machine state."""
        deps = sorted(self.deps)
        if len(deps) > 4:
            deps = [deps[0], "..", deps[-1], len(deps)]
        return [self.fwd, self.adj, self.phase, self.passes,
                list(self.loaded) if self.loaded else None, deps,
                sorted(self.store[RAM]), sorted(self.store[DISK])]

    def _budget(self, which):
        b = self.bud[which]
        if b is None or isinstance(b, int):
            return b
        if b == "N":
            return self.N
        if b == "periods":
            return self.fwd_phase_forwards
        if b == "periods+b":
            return self.fwd_phase_forwards + self.p["b"]
        raise KeyError(b)

    def _check_budgets(self):
        nr, nd = len(self.store[RAM]), len(self.store[DISK])
        if nr > self.peak_ram:
            self.peak_ram = nr
        if nd > self.peak_disk:
            self.peak_disk = nd
        br, bd = self._budget(0), self._budget(1)
        if br is not None:
            if nr > br:
                self.v("C03", "foreign_storage" if br == 0 else "ram_over",
                       f"RAM holds {nr} > budget {br}", site="RAM")
            elif nr == br and br > 0:
                self.budget_reached = True
        if bd is not None:
            if nd > bd:
                self.v("C03", "foreign_storage" if bd == 0 else "disk_over",
                       f"DISK holds {nd} > budget {bd}", site="DISK")
            elif nd == bd and bd > 0:
                self.budget_reached = True

    # ------------------------------------------------------------------
    def apply(self, a, maxn_known=True):
        """Apply one normalised action.  Guards first, then the effect (the
        effect is applied even when a guard fired, so that one defect does not
        cascade more than necessary)."""
        kind = a[0]
        if self.keep_log:
            self.log.append((a, self.phase, self.adj, self.passes, self.fwd))
        self.n_actions += 1
        nviol = len(self.viol)
        if self.phase == "REV" and self.adj == 0 and kind != "EndReverse":
            self.v("C02", "late_endreverse",
                   f"{a!r} although step 0 has been reversed and EndReverse "
                   "is due")
        try:
            getattr(self, "_" + kind)(a, maxn_known)
        except (TypeError, ValueError, IndexError, KeyError) as e:
            # a malformed action the machine cannot interpret
            self.v("C18", "malformed:uninterpretable", f"{a!r}: {e!r}")
        if kind in ("Forward", "Copy", "Move"):
            self._check_budgets()
        if not self.exempt_deps and len(self.deps) > 1:
            self.v("C12", "deps_gt_1",
                   f"WORK holds adjoint dependencies of {len(self.deps)} steps"
                   f" after {a!r}")
        return self.viol[nviol:]

    def _Forward(self, a, maxn_known):
        _, n0, n1, wi, wa, st = a
        N = self.N
        if self.phase == "DONE":
            self.v("C02", "after_final", f"{a!r} after the final action")
        if self.fwd != n0:
            self.v("C01", "fwd_start",
                   f"{a!r} but the forward stands at {self.fwd}")
            if self.phase == "FWD":
                self.v("C02", "forward_gap",
                       f"{a!r} in the forward phase but steps up to "
                       f"{self.fwd} have been advanced")
        if not n0 < n1:
            self.v("C18", "malformed:n0<n1", f"{a!r}")
        if self.phase == "REV":
            if n1 > self.adj:
                self.v("C12", "overshoot",
                       f"{a!r} advances beyond the adjoint position "
                       f"{self.adj}")
        elif maxn_known and n1 > N:
            self.v("C12", "overshoot",
                   f"{a!r} advances beyond the last step {N}")
        e = min(n1, N)
        if self.phase == "REV":
            e = min(e, max(self.adj, n0))
        if e < n0:
            e = n0
        if self.phase == "FWD":
            self.fwd_phase_forwards += 1
        if st in (RAM, DISK):
            if wi and wa:
                self.v("C03", "both_kinds",
                       f"{a!r} stores restart data and adjoint dependencies "
                       "in one checkpoint")
            if not wi and not wa:
                self.v("C18", "malformed:storage_nothing_written", f"{a!r}")
            if wa and e - n0 != 1:
                self.v("C03", "both_kinds",
                       f"{a!r} stores adjoint dependencies of {e - n0} steps "
                       "in one checkpoint")
            if n0 in self.store[st]:
                self.v("C01", "overwrite",
                       f"{a!r} writes over the existing {st} checkpoint {n0}")
            ck = "deps" if (wa and not wi) else "ics"
            if ck == "deps":
                self.deps_ckpt_written = True
            self.store[st][n0] = (ck, n0, e, "Forward")
            if st == DISK:
                self.disk_writes += 1
                self.clock += self.wd
                self.disk_read_keys.discard(n0)
            else:
                self.ram_writes += 1
        elif st == NONE:
            if wi or wa:
                self.v("C18", "malformed:none_but_written", f"{a!r}")
        elif st == WORK:
            if wa:
                if not self.exempt_deps:
                    top = self.adj if self.phase == "REV" else (
                        N if (self.offline or maxn_known) else None)
                    if e - n0 != 1 or (top is not None and n0 != top - 1):
                        self.v("C12", "deps_wrong_step",
                               f"{a!r} writes adjoint dependencies to WORK "
                               f"but the adjoint position is {top}")
                self.deps.update(range(n0, e))
        else:
            self.v("C18", "malformed:storage", f"{a!r}")
        self.fwd_steps += e - n0
        self.clock += (e - n0) * self.uf
        self.fwd = e
        self.loaded = None

    def _Reverse(self, a, maxn_known):
        _, n1, n0, clear = a
        if self.phase != "REV":
            self.v("C02", "phase" if self.phase == "FWD" else "after_final",
                   f"{a!r} in phase {self.phase}")
            if self.adj is None:
                self.adj = self.N
        if not (0 <= n0 < n1):
            self.v("C18", "malformed:reverse_range", f"{a!r}")
        if n1 != self.adj:
            self.v("C02", "reverse_gap" if n1 < self.adj else "reverse_repeat",
                   f"{a!r} but the adjoint stands at {self.adj}")
        missing = [s for s in (range(n0, n1) if n1 - n0 <= 4096 else ())
                   if s not in self.deps]
        if missing:
            self.v("C01", "missing_deps",
                   f"{a!r} but WORK lacks the adjoint dependencies of steps "
                   f"{missing[:4]}{'...' if len(missing) > 4 else ''}")
        self.rev_steps += max(n1 - n0, 0)
        self.clock += max(n1 - n0, 0) * self.ub
        self.adj = n0
        if clear:
            self.deps = set()

    def _xfer(self, a, move):
        kind, n, src, dst = a
        if self.phase != "REV":
            self.v("C02", "phase" if self.phase == "FWD" else "after_final",
                   f"{a!r} in phase {self.phase}")
        if src not in (RAM, DISK):
            self.v("C18", "malformed:source", f"{a!r}")
            return
        if dst not in (RAM, DISK, WORK, NONE):
            self.v("C18", "malformed:destination", f"{a!r}")
            return
        if dst == NONE and not move:
            self.v("C18", "malformed:copy_to_none", f"{a!r}")
        if dst == src:
            self.v("C18", "malformed:same_storage", f"{a!r}")
        if n not in self.store[src]:
            self.v("C01", "missing_checkpoint",
                   f"{a!r} but {src} holds {sorted(self.store[src])}")
            if dst == WORK:
                # nothing was loaded: the forward state is undefined from
                # here until the next Forward re-establishes it
                self.fwd = None
                self.loaded = None
            return
        ck, ca, cb, _ = self.store[src][n]
        adj = self.adj if self.adj is not None else self.N
        if src == DISK:
            self.disk_reads += 1
            self.clock += self.rd
            if n in self.disk_read_keys:
                self.reread_disk = True
            self.disk_read_keys.add(n)
        else:
            self.ram_reads += 1
        if move:
            del self.store[src][n]
        else:
            self.store[src][n] = (ck, ca, cb, kind)
        if dst == WORK:
            if self.loaded is not None or self.deps:
                self.v("C12", "load_over_data",
                       f"{a!r} while WORK holds "
                       f"{'loaded restart data ' if self.loaded else ''}"
                       f"{'adjoint dependencies' if self.deps else ''}")
            if ck == "ics":
                if not (n < adj and cb >= adj):
                    self.v("C01", "not_covering",
                           f"{a!r}: checkpoint serves steps [{ca},{cb}) but "
                           f"the adjoint stands at {adj}")
                self.loaded = (ca, cb)
                self.fwd = ca
            else:
                if ca != adj - 1:
                    self.v("C12", "deps_wrong_step",
                           f"{a!r} loads the adjoint dependencies of step "
                           f"{ca} but the adjoint stands at {adj}")
                self.deps.update(range(ca, cb))
                self.fwd = None
        elif dst in (RAM, DISK):
            if n in self.store[dst]:
                self.v("C01", "overwrite",
                       f"{a!r} writes over the existing {dst} checkpoint {n}")
            self.store[dst][n] = (ck, ca, cb, kind)
            if dst == DISK:
                self.disk_writes += 1
                self.clock += self.wd
                self.disk_read_keys.discard(n)
            else:
                self.ram_writes += 1

    def _Copy(self, a, maxn_known):
        self._xfer(a, False)

    def _Move(self, a, maxn_known):
        self._xfer(a, True)

    def _EndForward(self, a, maxn_known):
        if self.phase != "FWD":
            self.v("C02", "phase", f"EndForward in phase {self.phase}")
        if self.fwd != self.N:
            self.v("C02", "phase",
                   f"EndForward but the forward stands at {self.fwd}, "
                   f"not {self.N}")
        self.endforwards += 1
        self.phase = "REV"
        self.adj = self.N
        self.S_EF = self.store_keys()
        self.fwd_steps_at_pass_start = self.fwd_steps

    def _EndReverse(self, a, maxn_known):
        if self.phase != "REV":
            self.v("C02", "phase" if self.phase == "FWD" else "after_final",
                   f"EndReverse in phase {self.phase}")
        elif self.adj != 0:
            self.v("C02", "early_endreverse",
                   f"EndReverse but the adjoint stands at {self.adj}")
        self.passes += 1
        self.end_stores.append(self.store_keys())
        self.pass_fwd_steps.append(self.fwd_steps
                                   - self.fwd_steps_at_pass_start)
        self.fwd_steps_at_pass_start = self.fwd_steps
        self.adj = self.N

    def late_endreverse(self):
        """True when every step has been reversed and EndReverse is due."""
        return self.phase == "REV" and self.adj == 0

    # ------------------------------------------------------------------
    def cost(self):
        return self.clock

    def summary(self):
        return {"fwd_steps": self.fwd_steps, "rev_steps": self.rev_steps,
                "disk_writes": self.disk_writes, "disk_reads": self.disk_reads,
                "ram_writes": self.ram_writes, "ram_reads": self.ram_reads,
                "peak_ram": self.peak_ram, "peak_disk": self.peak_disk,
                "passes": self.passes, "clock": str(self.clock)}
