"""Reference models used as oracles (DESIGN.md section 5).

Re-implemented from the literature; nothing here imports from /repo.  All
arithmetic is exact: step counts are ints, costs are ints in units of
1/SCALE (the simulator only draws dyadic costs k/8), converted to Fraction at
the interface.
"""

from fractions import Fraction
from functools import lru_cache
from math import comb

SCALE = 8
INF = float("inf")


def beta(s, t):
    """Griewank & Walther beta(s, t) = C(s + t, s); 0 for t < 0."""
    if t < 0:
        return 0
    return comb(s + t, s)


# ---------------------------------------------------------------------------
# 5.1 binomial optimum
# ---------------------------------------------------------------------------

def gw_extra(n, s):
    """Minimal number of *extra* forward steps to reverse n steps with s
    restart checkpoints (Griewank & Walther 2000, Prop. 1)."""
    if n < 1:
        raise ValueError(n)
    if n == 1:
        return 0
    s = min(s, n - 1)
    if s < 1:
        raise ValueError("no unit")
    if s == 1:
        return n * (n - 1) // 2         # t = n - 1; no search needed
    t = 1
    while not (beta(s, t - 1) < n <= beta(s, t)):
        t += 1
    return t * n - beta(s + 1, t - 1)


def binomial_total(n, s):
    """Forward steps executed by an optimal binomial stream: every step is
    advanced once more with write_adj_deps, which the paper does not count."""
    return n + gw_extra(n, s)


_E = {}


def gw_extra_recurrence(n, s):
    """Second, structurally different source for 5.1 (self-test only)."""
    if n == 1:
        return 0
    s = min(s, n - 1)
    key = (n, s)
    if key in _E:
        return _E[key]
    if s == 1:
        r = n * (n - 1) // 2
    else:
        r = min(i + gw_extra_recurrence(i, s)
                + gw_extra_recurrence(n - i, s - 1) for i in range(1, n))
    _E[key] = r
    return r


# ---------------------------------------------------------------------------
# 5.2 mixed optimum (Maddison 2024)
# ---------------------------------------------------------------------------

class MixedTable:
    """M(n, s) bottom-up, one row per s, extended on demand."""

    def __init__(self):
        self.rows = {}     # s -> list indexed by n (entry 0 unused)

    def _row(self, s, nmax):
        row = self.rows.get(s)
        if row is None:
            row = [0, 1]
            self.rows[s] = row
        if len(row) > nmax:
            return row
        if s == 1:
            for n in range(len(row), nmax + 1):
                row.append(n if n <= 2 else n * (n + 1) // 2 - 1)
            return row
        prev = self._row(s - 1, nmax)
        for n in range(len(row), nmax + 1):
            if n <= s + 1:
                row.append(n)
                continue
            m = 1 + prev[n - 1]
            for i in range(2, n):
                c = i + row[i] + prev[n - i]
                if c < m:
                    m = c
            row.append(m)
        return row

    def M(self, n, s):
        if n < 1:
            raise ValueError(n)
        if n == 1:
            return 1
        s = min(s, n - 1)
        if s < 1:
            raise ValueError("no unit")
        if n <= s + 1:
            return n
        if s == 1:
            return n * (n + 1) // 2 - 1
        return self._row(s, n)[n]


MIXED = MixedTable()


_MIXED_TD = {}


def _mixed_topdown(n, s):
    """M(n, s) by memoised recursion over the sub-problems that are really
    reached: cheap when n - s is small however large s is (the bottom-up
    table needs every row below s)."""
    if n <= s + 1:
        return n
    if s == 1:
        return n * (n + 1) // 2 - 1
    key = (n, s)
    v = _MIXED_TD.get(key)
    if v is None:
        v = 1 + _mixed_topdown(n - 1, s - 1)
        for i in range(2, n):
            # i + M(i, s) + M(n - i, s - 1) >= 2 i + (n - i): prune
            if n + i >= v:
                break
            c = i + _mixed_topdown(i, s) + _mixed_topdown(n - i, s - 1)
            if c < v:
                v = c
        _MIXED_TD[key] = v
    return v


def mixed_total(n, s):
    if n > 1 and min(s, n - 1) > 64 and n - min(s, n - 1) <= 40:
        import sys
        old = sys.getrecursionlimit()
        sys.setrecursionlimit(max(old, 6 * n + 1000))
        try:
            return _mixed_topdown(n, min(s, n - 1))
        finally:
            sys.setrecursionlimit(old)
    return MIXED.M(n, s)


# ---------------------------------------------------------------------------
# 5.3 memory-only, Disk-Revolve and hierarchical optima (integer costs)
# ---------------------------------------------------------------------------

def to_units(x):
    """Fraction/str/int cost -> int in units of 1/SCALE (must be exact)."""
    f = Fraction(x) * SCALE
    if f.denominator != 1:
        raise ValueError(f"cost {x} is not a multiple of 1/{SCALE}")
    return int(f)


class Opt0Table:
    """Opt0(l, c) for fixed (uf, ub); rows per c, extended on demand."""

    def __init__(self, uf, ub):
        self.uf, self.ub = uf, ub
        self.rows = {}

    def row(self, c, lmax):
        uf, ub = self.uf, self.ub
        if c == 0:
            row = self.rows.setdefault(0, [ub])
            while len(row) <= lmax:
                row.append(INF)
            return row
        row = self.rows.get(c)
        if row is None:
            row = [ub, uf + 2 * ub]
            self.rows[c] = row
        if len(row) > lmax:
            return row
        if c == 1:
            for l in range(len(row), lmax + 1):
                row.append((l + 1) * ub + l * (l + 1) // 2 * uf)
            return row
        prev = self.row(c - 1, lmax)
        for l in range(len(row), lmax + 1):
            best = None
            for j in range(1, l):
                v = j * uf + prev[l - j] + row[j - 1]
                if best is None or v < best:
                    best = v
            row.append(best)
        return row

    def get(self, l, c):
        return self.row(c, l)[l]


@lru_cache(maxsize=64)
def opt0_table(uf, ub):
    return Opt0Table(uf, ub)


def opt0(l, c, uf, ub):
    return opt0_table(uf, ub).get(l, c)


@lru_cache(maxsize=256)
def _optinf_row(c, uf, ub, wd, rd):
    return [ub, (uf + 2 * ub) if c >= 1 else (wd + uf + 2 * ub + rd)]


def optinf(l, c, uf, ub, wd, rd):
    """Disk-Revolve optimum, disk checkpoints read once (Aupy et al. 2016)."""
    row = _optinf_row(c, uf, ub, wd, rd)
    o0 = opt0_table(uf, ub).row(c, max(l, 1))
    for ll in range(len(row), l + 1):
        best = o0[ll]
        for j in range(1, ll):
            v = wd + j * uf + row[ll - j] + rd + o0[j - 1]
            if v < best:
                best = v
        row.append(best)
    return row[l]


class HOpt:
    """Hierarchical optimum, K = 2 levels (RAM: w = r = 0; DISK: wd, rd)
    (Herrmann & Pallez 2020, section 3.1)."""

    def __init__(self, c0, c1, uf, ub, wd, rd):
        self.c = (c0, c1)
        self.uf, self.ub = uf, ub
        self.w = (0, wd)
        self.r = (0, rd)
        self.lmax = -1
        # opt[k][m][l], optp[k][m][l]
        self.opt = [[[] for _ in range(c0 + 1)], [[] for _ in range(c1 + 1)]]
        self.optp = [[[] for _ in range(c0 + 1)], [[] for _ in range(c1 + 1)]]

    def extend(self, lmax):
        uf, ub, w, r, c = self.uf, self.ub, self.w, self.r, self.c
        opt, optp = self.opt, self.optp
        for l in range(self.lmax + 1, lmax + 1):
            # level 0
            for m in range(c[0] + 1):
                if l == 0:
                    vp = ub
                elif m == 0:
                    vp = INF
                elif l == 1:
                    vp = uf + 2 * ub + r[0]
                else:
                    vp = (l + 1) * ub + l * (l + 1) // 2 * uf + l * r[0]
                    if m >= 2:
                        om1 = opt[0][m - 1]
                        opm = optp[0][m]
                        for j in range(1, l):
                            v = j * uf + om1[l - j] + r[0] + opm[j - 1]
                            if v < vp:
                                vp = v
                optp[0][m].append(vp)
                opt[0][m].append(vp if l == 0 else w[0] + vp)
            # level 1
            below = opt[0][c[0]][l]
            for m in range(c[1] + 1):
                if l == 0:
                    optp[1][m].append(ub)
                    opt[1][m].append(ub)
                    continue
                if m == 0:
                    optp[1][m].append(INF)
                    opt[1][m].append(below)
                    continue
                vp = below
                om1 = opt[1][m - 1]
                opm = optp[1][m]
                for j in range(1, l):
                    v = j * uf + om1[l - j] + r[1] + opm[j - 1]
                    if v < vp:
                        vp = v
                optp[1][m].append(vp)
                opt[1][m].append(min(below, w[1] + vp))
        self.lmax = max(self.lmax, lmax)

    def get(self, l):
        if l > self.lmax:
            self.extend(l)
        return self.opt[1][self.c[1]][l]


@lru_cache(maxsize=128)
def _hopt(c0, c1, uf, ub, wd, rd):
    return HOpt(c0, c1, uf, ub, wd, rd)


def hopt(l, c0, c1, uf, ub, wd, rd):
    return _hopt(c0, c1, uf, ub, wd, rd).get(l)


# ---------------------------------------------------------------------------
# 5.4 Periodic Disk-Revolve period (Aupy & Herrmann 2017, read-once)
# ---------------------------------------------------------------------------

def period_closed_form(c, uf, ub, wd, rd):
    ratio = Fraction(wd + rd, uf)
    t = 0
    while beta(c + 1, t) <= ratio:
        t += 1
    return beta(c, t)


def period_first_principles(c, uf, ub, wd, rd, kmax=None):
    """Largest minimiser of the asymptotic cost per step
    (wd + rd + k*uf + Opt0(k-1, c)) / k   (oracle self-test only)."""
    if kmax is None:
        kmax = 4 * period_closed_form(c, uf, ub, wd, rd) + 8
    row = opt0_table(uf, ub).row(c, kmax)
    best = None
    arg = None
    for k in range(1, kmax + 1):
        v = Fraction(wd + rd + k * uf + row[k - 1], k)
        if best is None or v <= best:
            best, arg = v, k
    return arg


# ---------------------------------------------------------------------------
# conveniences used by the property checkers
# ---------------------------------------------------------------------------

def cost_scale(p):
    """Least common denominator of a cost vector (at least SCALE)."""
    from math import lcm
    return lcm(SCALE, *(Fraction(p[k]).denominator
                        for k in ("uf", "ub", "wd", "rd")))


def costs_exact_in_binary(p):
    """True iff every cost is a dyadic rational, i.e. the library's
    floating-point tables are exact and 'equals the optimum' can be judged
    without a tolerance."""
    scale = cost_scale(p)
    # every denominator a power of two: the doubles are the rationals, and
    # sums of small multiples of them stay exact (53 bits are plenty)
    return scale & (scale - 1) == 0


def expected_cost(cls, N, p):
    """Expected makespan (Fraction) of a complete single-pass stream of an
    H-Revolve family class, or None where no equality is claimed.  The
    recurrences run in exact integers in units of 1/scale, scale = common
    denominator of the cost vector."""
    scale = cost_scale(p)
    uf, ub, wd, rd = (int(Fraction(p[k]) * scale)
                      for k in ("uf", "ub", "wd", "rd"))
    l = N - 1
    if cls == "Revolve":
        m = opt0(l, p["s"], uf, ub)
    elif cls == "DiskRevolve":
        m = optinf(l, p["s"], uf, ub, wd, rd)
    elif cls == "HRevolve":
        m = hopt(l, p["s"], p["d"], uf, ub, wd, rd)
    else:
        return None
    return Fraction(m + N * uf, scale)
