#!/bin/bash
# Run once in /verif after a fresh restore, offline.  Builds nothing that
# needs the network: the framework is plain Python run by /venv/bin/python.
# Runs the harness self-tests (DESIGN.md sections 5.6, 7.1, 7.2a).
set -u
cd "$(dirname "$(readlink -f "$0")")" || exit 2
export PYTHONDONTWRITEBYTECODE=1
export PYTHONHASHSEED=0
PY=/venv/bin/python
[ -x "$PY" ] || { echo "setup: $PY missing"; exit 2; }
$PY -c "import numpy, sys; assert sys.version_info[:2] >= (3, 10)" || exit 2
REPO="${VERIF_REPO:-/repo}"
$PY -B -c "
import sys; sys.path.insert(0, '$REPO')
import checkpoint_schedules as cs
print('setup: library', cs.__file__)
" || exit 2
mkdir -p evidence replays
$PY -B -m sim.selftest all || { echo "setup: self-tests failed"; exit 2; }
echo "setup: OK"
