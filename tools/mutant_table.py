"""Print the markdown table 'which checks catch which seeded change'."""
import json
import os

ROOT = os.path.dirname(os.path.dirname(os.path.abspath(__file__)))
INFO = json.load(open(os.path.join(ROOT, "seeded", "INFO.json")))
print("| id | breaks | change | needs | repository tests | caught by (quick"
      " tier; target first) | first kinds |")
print("|---|---|---|---|---|---|---|")
for sid in sorted(INFO):
    info = INFO[sid]
    rp = os.path.join(ROOT, "seeded", sid, "result.json")
    if not os.path.exists(rp):
        continue
    r = json.load(open(rp))
    det = r.get("detected_by", [])
    tgt = info["property"][:3]
    det = [p for p in det if p == tgt] + [p for p in det if p != tgt]
    kinds = []
    for p in det[:2]:
        kinds += [f"{p}:{k}" for k in r["checks"][p]["kinds"][:2]]
    tests = r.get("tests_tail", "not run")
    tests = tests.split(",")[0] if tests else "not run"
    err = r.get("harness_errors") or []
    print(f"| {sid} | {info['property'][:24]} | {info['change']} | "
          f"{info['needs']} | {tests} | "
          f"{', '.join(det) if det else '**none**'}"
          f"{' (harness errors: ' + ','.join(err) + ')' if err else ''} | "
          f"{'; '.join(kinds)} |")
