"""Regenerate /verif/MANIFEST.json from the property registry."""
import json
import os
import sys

ROOT = os.path.dirname(os.path.dirname(os.path.abspath(__file__)))
sys.path.insert(0, ROOT)
from sim.props import registry          # noqa: E402

BASELINE = ("cd /repo && /venv/bin/python -m pytest -ra -q -p no:cacheprovider"
            " --timeout=900 --continue-on-collection-errors")

ENGINE = {"C09": "E2", "C10": "E2", "C11": "E2", "C15": "E2"}

TEXT = {
 "exploration": (
     "Seeded deterministic simulation: {rule}. Every run is a pure function "
     "of VERIF_SEED and the run index; a clean batch is evidence over the "
     "explored histories/configurations, not proof."),
 "fault_enumeration": (
     "Deterministic simulation with exhaustive single-fault injection inside "
     "a small box plus seeded multi-fault histories: {rule}. The box is "
     "enumerated completely (evidence says whether the budget covered it); "
     "beyond it the result is sampled evidence."),
}


def main():
    reg = registry()
    checks = []
    for pid in sorted(reg):
        p = reg[pid]()
        checks.append({
            "property_id": pid,
            "quick_cmd": f"./check {pid} quick",
            "thorough_cmd": f"./check {pid} thorough",
            "evidence_file": f"/verif/evidence/{pid}.json",
            "replay_cmd_template": f"./check {pid} --replay {{path}}",
            "engine": ENGINE.get(pid, "E1"),
            "level_claimed": {
                "category": p.LEVEL,
                "text": TEXT[p.LEVEL].format(rule=p.RULE),
                "design_ref": f"DESIGN.md section 6 ({pid}), sections 3-5",
            },
            "level_note": "Trusted base / assumptions: " + "; ".join(
                p.ASSUMPTIONS) + ".",
            "technique": p.TECHNIQUE,
        })
    man = {
        "version": 1,
        "setup_cmd": "./setup.sh",
        "hooks": {
            "guard": "CHECKPOINT_SCHEDULES_VERIF",
            "enable": "no hook was needed: every seam is public API, a module "
                      "attribute (checkpoint_schedules.mixed.numba) or "
                      "process structure (fork); the guard variable is "
                      "reserved and unused",
            "baseline_off_cmd": BASELINE,
            "source_commits": [],
            "add_only": True,
        },
        "engines": [
            {"name": "E1", "path": "sim/",
             "serves_properties": [c["property_id"] for c in checks
                                   if c["engine"] == "E1"],
             "kind_free_text": "single-tenant deterministic simulation: one "
             "schedule, seeded executor, reference storage machine and cost "
             "clock"},
            {"name": "E2", "path": "sim/",
             "serves_properties": ["C09", "C10", "C11", "C15"],
             "kind_free_text": "multi-tenant cooperative simulation: several "
             "live schedules stepped by a seeded scheduler with injected "
             "finalize/observer/overrun calls; pristine-process baselines"},
        ],
        "checks": checks,
        "not_applicable": [],
        "notes": "Deterministic simulation with fault injection; see "
                 "DESIGN.md. Genuine defects found and repaired are listed "
                 "in known_findings.json (status fixed) with the minimised "
                 "pre-repair replays under findings/.",
    }
    with open(os.path.join(ROOT, "MANIFEST.json"), "w") as fh:
        json.dump(man, fh, indent=1)
    print("MANIFEST.json:", len(checks), "checks")


if __name__ == "__main__":
    main()
