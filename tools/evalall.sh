#!/bin/bash
# Re-run every seeded change against the current checks (no repository tests;
# those were run when each change was first confirmed).  Two lanes.
cd /verif
ids=$(ls seeded | grep -v INFO.json)
lane() { for id in "$@"; do /venv/bin/python tools/evalmut.py seeded/$id --no-tests --budget ${BUDGET:-12} > /tmp/vmut/$id.final.log 2>&1; done; }
a=(); b=(); i=0
for id in $ids; do if [ $((i%2)) = 0 ]; then a+=($id); else b+=($id); fi; i=$((i+1)); done
lane "${a[@]}" & lane "${b[@]}" & wait
/venv/bin/python tools/mkmeta.py
