#!/bin/bash
# Re-run every seeded change against the current checks (no repository tests;
# those were run when each change was first confirmed).  Three lanes.
cd /verif
mkdir -p /tmp/vmut
ids=$(ls seeded | grep -v INFO.json)
lane() { for id in "$@"; do /venv/bin/python tools/evalmut.py seeded/$id --no-tests --budget ${BUDGET:-10} > /tmp/vmut/$id.final.log 2>&1; done; }
a=(); b=(); c=(); i=0
for id in $ids; do case $((i%3)) in 0) a+=($id);; 1) b+=($id);; 2) c+=($id);; esac; i=$((i+1)); done
lane "${a[@]}" & lane "${b[@]}" & lane "${c[@]}" & wait
/venv/bin/python tools/mkmeta.py > /tmp/vmut/mkmeta.log
echo evalall done
