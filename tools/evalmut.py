"""Evaluate one seeded change against the checks.

    tools/evalmut.py <dir with patch.diff [demo.py]> [--props C01,C02,...]
                     [--budget S] [--no-tests] [--tier quick]

Creates a scratch git worktree of /repo outside /repo and /verif, applies the
patch there, (1) runs the demonstration with and without the change, (2) runs
the repository's own test suite on the changed tree, (3) runs the listed
checks (default: all) with VERIF_REPO pointing at the scratch tree, and
removes the worktree again.  Writes <dir>/result.json.
"""

import json
import os
import re
import shutil
import subprocess
import sys
import time

ROOT = os.path.dirname(os.path.dirname(os.path.abspath(__file__)))
ALL = ["C%02d" % i for i in range(1, 20)]


def sh(cmd, cwd=None, env=None, timeout=3600):
    p = subprocess.run(cmd, cwd=cwd, env=env, capture_output=True, text=True,
                       timeout=timeout, shell=isinstance(cmd, str))
    return p.returncode, p.stdout, p.stderr


def main():
    args = sys.argv[1:]
    d = os.path.abspath(args.pop(0))
    props, budget, tests, tier = ALL, 12, True, "quick"
    while args:
        a = args.pop(0)
        if a == "--props":
            props = [x for x in args.pop(0).split(",") if x != "none"]
        elif a == "--budget":
            budget = float(args.pop(0))
        elif a == "--no-tests":
            tests = False
        elif a == "--tier":
            tier = args.pop(0)
    name = os.path.basename(d)
    wt = f"/tmp/vmut/{name}-{os.getpid()}"
    os.makedirs("/tmp/vmut", exist_ok=True)
    res = {}
    old = os.path.join(d, "result.json")
    if os.path.exists(old):
        try:
            res = json.load(open(old))
        except ValueError:
            res = {}
    res.update({"name": name, "at": time.strftime("%Y-%m-%d %H:%M:%S")})
    rc, so, se = sh(["git", "-C", "/repo", "worktree", "add", "--detach",
                     wt, "HEAD"])
    if rc:
        print("worktree failed", se)
        return 2
    try:
        res["repo_head"] = sh(["git", "-C", "/repo", "rev-parse", "--short",
                               "HEAD"])[1].strip()
        demo = os.path.join(d, "demo.py")
        env = dict(os.environ, PYTHONDONTWRITEBYTECODE="1", PYTHONPATH=wt)
        if os.path.exists(demo):
            os.makedirs(os.path.join(wt, "_deliver"), exist_ok=True)
            # demonstrations written in /tmp/mut/<id> may name that
            # directory; here they must test this scratch tree
            text = open(demo).read().replace(f"/tmp/mut/{name}", wt)
            with open(os.path.join(wt, "_deliver", "demo.py"), "w") as fh:
                fh.write(text)
            rc, so, se = sh(["/venv/bin/python", "-B", "_deliver/demo.py"],
                            cwd=wt,
                            env=env, timeout=900)
            res["demo_without_change_rc"] = rc
        rc, so, se = sh(["git", "-C", wt, "apply",
                         os.path.join(d, "patch.diff")])
        if rc:
            print("patch does not apply:", se)
            res["patch_applies"] = False
            return 2
        res["patch_applies"] = True
        if os.path.exists(demo):
            rc, so, se = sh(["/venv/bin/python", "-B", "_deliver/demo.py"],
                            cwd=wt, env=env, timeout=900)
            res["demo_with_change_rc"] = rc
            res["demo_tail"] = (so + se)[-400:]
        tp = None
        if tests:
            tp = subprocess.Popen(
                ["/venv/bin/python", "-m", "pytest", "-q", "-p",
                 "no:cacheprovider", "--timeout=900"], cwd=wt, env=env,
                stdout=subprocess.PIPE, stderr=subprocess.STDOUT, text=True)
        det = {}
        for pid in props:
            e2 = dict(env, VERIF_REPO=wt, VERIF_SKIP_DETERMINISM="1",
                      VERIF_EVIDENCE_DIR=f"/tmp/vmut/ev-{os.getpid()}")
            t0 = time.time()
            rc, so, se = sh([os.path.join(ROOT, "check"), pid, tier,
                             "--budget", str(budget)], env=e2, timeout=3600)
            kinds = re.findall(r"^  (\S+) \[(\S+)\]", so, re.M)
            det[pid] = {"rc": rc, "wall": round(time.time() - t0, 1),
                        "kinds": sorted({f"{k}[{c}]" for k, c in kinds
                                         if k != "PROBE-ZERO"})[:8],
                        "violations": so.count("VIOLATION property=")}
            if rc not in (0, 1):
                det[pid]["tail"] = (so + se)[-300:]
            print(pid, rc, det[pid]["kinds"][:3], flush=True)
        merged = dict(res.get("checks") or {})
        merged.update(det)
        res["checks"] = merged
        res["detected_by"] = sorted(p for p in merged
                                    if merged[p]["rc"] == 1)
        res["harness_errors"] = sorted(p for p in merged
                                       if merged[p]["rc"] not in (0, 1))
        if tp is not None:
            out = tp.communicate(timeout=3000)[0]
            res["tests_rc"] = tp.returncode
            res["tests_tail"] = out.strip().splitlines()[-1] if out else ""
        print(json.dumps({k: res[k] for k in res if k != "checks"},
                         indent=1))
        with open(os.path.join(d, "result.json"), "w") as fh:
            json.dump(res, fh, indent=1)
    finally:
        sh(["git", "-C", "/repo", "worktree", "remove", "--force", wt])
        shutil.rmtree(f"/tmp/vmut/ev-{os.getpid()}", ignore_errors=True)
    return 0


if __name__ == "__main__":
    sys.exit(main())
