#!/bin/bash
# tools/run_tier.sh quick|thorough [ids...] : run the registered checks of a
# tier one after another in /verif against /repo; log per check.
# VERIF_SEED is honoured (default 0); BUDGET=<seconds> overrides the tier's
# wall budget per check (the registered commands use the default).
cd /verif
tier=${1:-quick}; shift
ids=${@:-C01 C02 C03 C04 C05 C06 C07 C08 C09 C10 C11 C12 C13 C14 C15 C16 C17 C18 C19}
mkdir -p /tmp/vmut/tier-$tier
for p in $ids; do
  ./check $p $tier ${BUDGET:+--budget $BUDGET} > /tmp/vmut/tier-$tier/$p.log 2>&1
  echo "$p rc=$? $(grep -c VIOLATION /tmp/vmut/tier-$tier/$p.log) violations; $(grep ' runs, ' /tmp/vmut/tier-$tier/$p.log)"
  if [ "$tier" = thorough ]; then mkdir -p evidence/thorough; cp evidence/$p.json evidence/thorough/$p.json; fi
done
