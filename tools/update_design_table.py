"""Replace the seeded-change table of DESIGN.md 12.6 with the output of
tools/mutant_table.py."""
import os
import subprocess
import sys

ROOT = os.path.dirname(os.path.dirname(os.path.abspath(__file__)))
path = os.path.join(ROOT, "DESIGN.md")
lines = open(path).read().split("\n")
start = next(i for i, l in enumerate(lines) if l.startswith("| id | breaks |"))
end = start
while end < len(lines) and lines[end].startswith("|"):
    end += 1
table = subprocess.run([sys.executable, os.path.join(ROOT, "tools",
                                                     "mutant_table.py")],
                       capture_output=True, text=True, check=True).stdout
new = lines[:start] + table.rstrip("\n").split("\n") + lines[end:]
open(path, "w").write("\n".join(new))
print("table rows:", len(table.strip().split("\n")) - 2)
