"""Write seeded/<id>/meta.json from result.json and the hand-written table
below (what the change is / what it needs in order to manifest)."""
import json
import os
import sys

ROOT = os.path.dirname(os.path.dirname(os.path.abspath(__file__)))
INFO = json.load(open(os.path.join(ROOT, "seeded", "INFO.json")))


def main():
    for sid, info in sorted(INFO.items()):
        d = os.path.join(ROOT, "seeded", sid)
        rp = os.path.join(d, "result.json")
        if not os.path.exists(rp):
            continue
        r = json.load(open(rp))
        meta = {
            "id": sid,
            "breaks_property": info["property"],
            "change": info["change"],
            "needs_to_manifest": info["needs"],
            "origin": "independent sub-agent given only the property text "
                      "and a scratch worktree of /repo",
            "confirmed_by_me": {
                "how": "tools/evalmut.py: scratch git worktree of /repo HEAD "
                       f"({r.get('repo_head')}) under /tmp/vmut, patch "
                       "applied with git apply; demo.py run there before and "
                       "after; repository test suite run on the changed "
                       "tree; checks run with VERIF_REPO pointing at the "
                       "scratch tree; worktree removed afterwards",
                "demo_rc_without_change": r.get("demo_without_change_rc"),
                "demo_rc_with_change": r.get("demo_with_change_rc"),
                "repository_tests_with_change": r.get("tests_tail"),
            },
            "checks_quick_tier": {
                "detected_by": r.get("detected_by"),
                "kinds": {p: r["checks"][p]["kinds"]
                          for p in r.get("detected_by", [])},
                "budget_s_per_check": info.get("budget", 10),
            },
        }
        with open(os.path.join(d, "meta.json"), "w") as fh:
            json.dump(meta, fh, indent=1)
        print(sid, "->", meta["checks_quick_tier"]["detected_by"])


if __name__ == "__main__":
    sys.exit(main())
