#!/bin/bash
# Re-run every seeded change against the check of the property it was written
# to break (no repository tests, no other checks); results are merged into
# seeded/<id>/result.json.  LANES lanes, BUDGET seconds per check.
cd /verif
mkdir -p /tmp/vmut
ids=$(/venv/bin/python - <<'PY'
import json
d = json.load(open('/verif/seeded/INFO.json'))
for k, v in sorted(d.items()):
    p = v['property'][:3]
    if p.startswith('C') and p[1:].isdigit():
        print(k + ':' + p)
PY
)
n=${LANES:-3}
i=0
for pair in $ids; do
  lane[$((i % n))]+=" $pair"; i=$((i + 1))
done
for j in $(seq 0 $((n - 1))); do
  ( for pair in ${lane[$j]}; do
      id=${pair%%:*}; p=${pair##*:}
      /venv/bin/python tools/evalmut.py seeded/$id --no-tests --props $p --budget ${BUDGET:-10} > /tmp/vmut/$id.target.log 2>&1
      echo "$id $p $(head -1 /tmp/vmut/$id.target.log)"
    done ) &
done
wait
echo evaltarget done
