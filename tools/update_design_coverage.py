"""Replace the two coverage tables of DESIGN.md 12.7 (quick: evidence/,
thorough: evidence/thorough/) with the output of tools/evidence_table.py."""
import os
import subprocess
import sys

ROOT = os.path.dirname(os.path.dirname(os.path.abspath(__file__)))
path = os.path.join(ROOT, "DESIGN.md")
lines = open(path).read().split("\n")
i0 = next(i for i, l in enumerate(lines) if l.startswith("### 12.7"))
out = lines[:i0]
rest = lines[i0:]
dirs = ["evidence", "evidence/thorough"]
k = 0
j = 0
while j < len(rest):
    if rest[j].startswith("| id | tier | runs |") and k < 2:
        e = j
        while e < len(rest) and rest[e].startswith("|"):
            e += 1
        tab = subprocess.run(
            [sys.executable, os.path.join(ROOT, "tools", "evidence_table.py"),
             os.path.join(ROOT, dirs[k])], capture_output=True, text=True,
            check=True).stdout.rstrip("\n").split("\n")
        out += tab
        j = e
        k += 1
    else:
        out.append(rest[j])
        j += 1
open(path, "w").write("\n".join(out))
print("tables replaced:", k)
