"""Markdown table of what the evidence files report (tier directory arg)."""
import glob
import json
import os
import sys

d = sys.argv[1] if len(sys.argv) > 1 else "evidence"
print("| id | tier | runs | runs/hour | simulated actions | simulated cost "
      "units | distinct histories | distinct non-trivial | faults fired "
      "(kind: count) | probes stuck at 0 | library lines reached |")
print("|---|---|---|---|---|---|---|---|---|---|---|")
for f in sorted(glob.glob(os.path.join(d, "C*.json"))):
    e = json.load(open(f))
    c = e["coverage"]
    faults = ", ".join(f"{k}: {v}" for k, v in
                       c.get("fault_counts_fired", {}).items())
    lr = c.get("line_reach", {}).get("reached_total", "-")
    print(f"| {e['property_id']} | {e['tier']} | {c['evaluations']} | "
          f"{c['runs_per_hour']} | {c['sim_actions']} | "
          f"{c['sim_time_cost_units']} | {c['distinct_histories']} | "
          f"{c['distinct_nontrivial']} | {faults} | "
          f"{c.get('probes_stuck_at_zero') or '-'} | {lr} |")
