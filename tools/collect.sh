#!/bin/bash
# tools/collect.sh C10-a  : copy a sub-agent's deliverables to /verif/seeded/<id>/
id="$1"; src="/tmp/mut/$id/_deliver"; dst="/verif/seeded/$id"
mkdir -p "$dst" && cp "$src/patch.diff" "$src/demo.py" "$src/notes.md" "$dst/" && ls "$dst"
